(* ParserLemmas: lemmas about Model/Profile.v used by Props/C15.v and Props/C16.v. *)
From Coq Require Import ZArith String Ascii List Bool Lia FinFun.
From Droop Require Import Model.KernelBase Model.Str Gen.UnicodeTables Model.Profile Model.ProfileSpec.
Import ListNotations.
Open Scope Z_scope.

(* ------------------------------------------------------------------ monad inversion *)
Lemma bind_ok {A B} (r : res A) (f : A -> res B) b :
  bind r f = Ok b -> exists a, r = Ok a /\ f a = Ok b.
Proof. destruct r as [a|e]; simpl; intro H; [exists a; auto | discriminate]. Qed.

Definition epe_only {A} (P : A -> Prop) (r : res A) : Prop :=
  match r with Ok a => P a | Raise e => e = ElectionProfileError end.

Lemma epe_bind {A B} (P : A -> Prop) (Q : B -> Prop) (r : res A) (f : A -> res B) :
  epe_only P r -> (forall a, P a -> epe_only Q (f a)) -> epe_only Q (bind r f).
Proof. destruct r as [a|e]; simpl; auto. Qed.

(* ------------------------------------------------------------------ numbers *)
Lemma digit_in_nonneg l : forallb (fun t => 0 <=? snd t) l = true ->
  forall c v, digit_in c l = Some v -> 0 <= v.
Proof.
  induction l as [|[[lo hi] v0] t IH]; simpl; intros Hl c v H; [discriminate|].
  apply andb_true_iff in Hl. destruct Hl as [H0 Ht]. apply Z.leb_le in H0.
  destruct ((lo <=? c) && (c <=? hi)) eqn:E.
  - apply andb_true_iff in E. destruct E as [E1 _]. apply Z.leb_le in E1. inversion H. lia.
  - eapply IH; eauto.
Qed.

Lemma digit_ranges_nonneg : forallb (fun t => 0 <=? snd t) digit_ranges = true.
Proof. vm_compute. reflexivity. Qed.

Lemma digit_or0_nonneg c : 0 <= digit_or0 c.
Proof.
  unfold digit_or0, digit_value. destruct (digit_in c digit_ranges) eqn:E; [|lia].
  eapply digit_in_nonneg; eauto. apply digit_ranges_nonneg.
Qed.

Lemma int_of_digits_nonneg s : 0 <= int_of_digits s.
Proof.
  unfold int_of_digits. assert (G : forall l a, 0 <= a -> 0 <= fold_left (fun acc c => acc * 10 + digit_or0 c) l a).
  { induction l as [|c t IH]; simpl; intros a Ha; auto. apply IH. pose proof (digit_or0_nonneg c). lia. }
  apply G. lia.
Qed.

Lemma all_digits_not_minus s : all_digits s = true ->
  match s with c :: r => (c =? cMINUS) = false | [] => False end.
Proof.
  destruct s as [|c r]; simpl; [discriminate|]. intro H. apply andb_true_iff in H. destruct H as [H _].
  destruct (c =? cMINUS) eqn:E; auto. apply Z.eqb_eq in E. subst c. vm_compute in H. discriminate.
Qed.

(* _int on a token matched by \d+ : a non-negative number, or ElectionProfileError *)
Lemma p_int_digits s : all_digits s = true -> epe_only (fun v => 0 <= v /\ v = int_of_digits s) (p_int s).
Proof.
  intro H. pose proof (all_digits_not_minus s H) as Hm. unfold p_int, py_int.
  destruct s as [|c r]; [contradiction|]. rewrite Hm.
  destruct (int_max_str_digits <? Z.of_nat (List.length (c :: r))); simpl; auto.
  split; auto. apply int_of_digits_nonneg.
Qed.

Lemma p_int_clean s : epe_only (fun _ => True) (p_int s).
Proof.
  unfold p_int, py_int. destruct s as [|c r]; simpl.
  - destruct (int_max_str_digits <? 0); simpl; auto.
  - destruct (c =? cMINUS); destruct (int_max_str_digits <? _); simpl; auto.
Qed.

(* ------------------------------------------------------------------ ranges 1..n *)
(* from_to a l b : l = [a; a+1; ...; b-1] *)
Fixpoint from_to (a : Z) (l : list Z) (b : Z) : Prop :=
  match l with [] => a = b | x :: t => x = a /\ from_to (a + 1) t b end.

Lemma from_to_app l : forall a b, from_to a l b -> from_to a (l ++ [b]) (b + 1).
Proof.
  induction l as [|x t IH]; simpl; intros a b H.
  - subst. auto.
  - destruct H as [Hx Ht]. split; auto.
Qed.

Lemma from_to_seq l : forall a b, 0 <= a -> from_to a l b ->
  a <= b /\ l = map Z.of_nat (seq (Z.to_nat a) (Z.to_nat (b - a))).
Proof.
  induction l as [|x t IH]; simpl; intros a b Ha H.
  - subst. split; [lia|]. replace (b - b) with 0 by lia. reflexivity.
  - destruct H as [Hx Ht]. subst x. destruct (IH (a + 1) b ltac:(lia) Ht) as [Hle Heq].
    split; [lia|].
    replace (Z.to_nat (b - a)) with (S (Z.to_nat (b - (a + 1)))) by lia.
    simpl. rewrite Z2Nat.id by lia. f_equal.
    replace (S (Z.to_nat a)) with (Z.to_nat (a + 1)) by lia. exact Heq.
Qed.

Lemma from_to_upto l n : from_to 1 l (n + 1) -> 0 <= n /\ l = cids_upto n.
Proof.
  intro H. destruct (from_to_seq l 1 (n + 1) ltac:(lia) H) as [Hle Heq]. split; [lia|].
  unfold cids_upto. replace (n + 1 - 1) with n in Heq by lia. exact Heq.
Qed.

Lemma in_cids_upto n c : In c (cids_upto n) <-> 1 <= c <= n.
Proof.
  unfold cids_upto. rewrite in_map_iff. split.
  - intros [i [Hi Hin]]. apply in_seq in Hin. lia.
  - intros H. exists (Z.to_nat c). split; [lia|]. apply in_seq. lia.
Qed.

Lemma nodup_cids_upto n : NoDup (cids_upto n).
Proof.
  unfold cids_upto. apply FinFun.Injective_map_NoDup.
  - intros a b H. lia.
  - apply seq_NoDup.
Qed.

(* strictly increasing and >= a *)
Fixpoint sfrom (a : Z) (l : list Z) : Prop :=
  match l with [] => True | x :: t => a <= x /\ sfrom (x + 1) t end.

Lemma sfrom_pigeon l : forall a b, a <= b -> sfrom a l -> Forall (fun x => x < b) l ->
  Z.of_nat (List.length l) <= b - a /\ (Z.of_nat (List.length l) = b - a -> from_to a l b).
Proof.
  induction l as [|x t IH]; intros a b Hab Hs Hf.
  - simpl. split; [lia|]. intro. lia.
  - simpl in Hs. destruct Hs as [Hax Ht]. inversion Hf as [|? ? Hxb Hft]; subst.
    destruct (IH (x + 1) b ltac:(lia) Ht Hft) as [Hlen Heq].
    simpl List.length. rewrite Nat2Z.inj_succ. split; [lia|].
    intro E. assert (x = a) by lia. subst x. simpl. split; auto. apply Heq. lia.
Qed.

Lemma sfrom_weaken l : forall a a', a' <= a -> sfrom a l -> sfrom a' l.
Proof. destruct l; simpl; auto. intros a a' H [H1 H2]. split; auto. lia. Qed.

(* ------------------------------------------------------------------ sets and maps *)
Lemma zmem_in c l : zmem c l = true <-> In c l.
Proof.
  induction l as [|x t IH]; simpl; [split; [discriminate|tauto]|].
  destruct (x =? c) eqn:E.
  - apply Z.eqb_eq in E. subst. tauto.
  - apply Z.eqb_neq in E. rewrite IH. split; [tauto|]. intros [H|H]; [contradiction|auto].
Qed.

Lemma zmem_notin c l : zmem c l = false <-> ~ In c l.
Proof.
  rewrite <- zmem_in. destruct (zmem c l); split; intro H.
  - discriminate.
  - exfalso. apply H. reflexivity.
  - intro; discriminate.
  - reflexivity.
Qed.

Lemma in_zset_add x c l : In x (zset_add c l) -> x = c \/ In x l.
Proof.
  induction l as [|y t IH]; simpl.
  - intros [H|[]]; auto.
  - destruct (c <? y); [simpl; intros [H|H]; auto|].
    destruct (c =? y); [auto|]. simpl. intros [H|H]; auto. destruct (IH H); auto.
Qed.

Lemma forall_zset_add (P : Z -> Prop) c l : P c -> Forall P l -> Forall P (zset_add c l).
Proof.
  intros Hc Hl. apply Forall_forall. intros x Hx. destruct (in_zset_add _ _ _ Hx) as [->|H]; auto.
  rewrite Forall_forall in Hl. auto.
Qed.

Lemma zmap_set_keys {V} x k (v : V) l : In x (map fst (zmap_set k v l)) -> x = k \/ In x (map fst l).
Proof.
  induction l as [|[k' v'] t IH]; simpl.
  - intros [H|[]]; auto.
  - destruct (k <? k'); [simpl; intros [H|H]; auto|].
    destruct (k =? k') eqn:E; simpl.
    + intros [H|H]; auto.
    + intros [H|H]; auto. destruct (IH H); auto.
Qed.

Lemma zmap_set_vals {V} x k (v : V) l : In x (map snd (zmap_set k v l)) -> x = v \/ In x (map snd l).
Proof.
  induction l as [|[k' v'] t IH]; simpl.
  - intros [H|[]]; auto.
  - destruct (k <? k'); [simpl; intros [H|H]; auto|].
    destruct (k =? k') eqn:E; simpl.
    + intros [H|H]; auto.
    + intros [H|H]; auto. destruct (IH H); auto.
Qed.

Lemma zmap_set_nodup {V} k (v : V) l : NoDup (map snd l) -> ~ In v (map snd l) -> NoDup (map snd (zmap_set k v l)).
Proof.
  induction l as [|[k' v'] t IH]; simpl; intros Hn Hv.
  - constructor; [auto | constructor].
  - inversion Hn as [|? ? Hnot Hnt]; subst.
    assert (Hv1 : v <> v') by (intro; subst; apply Hv; left; reflexivity).
    assert (Hv2 : ~ In v (map snd t)) by (intro; apply Hv; right; assumption).
    destruct (k <? k').
    + simpl. constructor; [exact Hv | exact Hn].
    + destruct (k =? k'); simpl.
      * constructor; [exact Hv2 | exact Hnt].
      * constructor.
        -- intro Hin. destruct (zmap_set_vals _ _ _ _ Hin) as [E|H]; [congruence | contradiction].
        -- apply IH; assumption.
Qed.

Lemma zmap_set_sfrom {V} k (v : V) l : forall a, a <= k -> sfrom a (map fst l) -> sfrom a (map fst (zmap_set k v l)).
Proof.
  induction l as [|[k' v'] t IH]; simpl; intros a Hak Hs.
  - auto.
  - destruct Hs as [Hak' Ht]. destruct (k <? k') eqn:E1.
    + apply Z.ltb_lt in E1. simpl. repeat split; auto; lia.
    + destruct (k =? k') eqn:E2; simpl.
      * apply Z.eqb_eq in E2. subst. split; auto.
      * apply Z.ltb_ge in E1. apply Z.eqb_neq in E2. split; auto. apply IH; auto. lia.
Qed.

Lemma ustr_eqb_eq a : forall b, ustr_eqb a b = true <-> a = b.
Proof.
  induction a as [|x a IH]; destruct b as [|y b]; simpl; split; try congruence; auto.
  - intro H. apply andb_true_iff in H. destruct H as [H1 H2]. apply Z.eqb_eq in H1. apply IH in H2. congruence.
  - intro H. inversion H; subst. rewrite Z.eqb_refl. simpl. apply IH. reflexivity.
Qed.

Lemma smap_get_none k l : smap_get k l = None -> ~ In k (map fst l).
Proof.
  induction l as [|[k' v] t IH]; simpl; auto.
  destruct (ustr_eqb k' k) eqn:E; [discriminate|]. intros H [H1|H1].
  - subst. assert (ustr_eqb k k = true) by (apply ustr_eqb_eq; reflexivity). congruence.
  - apply IH; auto.
Qed.

Lemma smap_get_some k l c : smap_get k l = Some c -> In (k, c) l.
Proof.
  induction l as [|[k' v] t IH]; simpl; [discriminate|].
  destruct (ustr_eqb k' k) eqn:E.
  - apply ustr_eqb_eq in E. subst. intro H; inversion H; auto.
  - auto.
Qed.

Lemma has_dup_nodup l : has_dup l = false -> NoDup l.
Proof.
  induction l as [|x t IH]; simpl; intro H; [constructor|].
  destruct (zmem x t) eqn:E; [discriminate|]. constructor; auto. apply zmem_notin. exact E.
Qed.

(* keep [simpl] from unfolding the string primitives inside the parser loops *)
Arguments starts_with : simpl never.
Arguments ends_with : simpl never.
Arguments lstrip_c : simpl never.
Arguments rstrip_c : simpl never.
Arguments strip_c : simpl never.
Arguments split_on : simpl never.
Arguments ustr_eqb : simpl never.
Arguments all_digits : simpl never.
Arguments is_sdigits : simpl never.
Arguments p_int : simpl never.
Arguments getCid : simpl never.
Arguments apply_option : simpl never.
Arguments zmem : simpl never.
Arguments smem : simpl never.
Arguments Z.add : simpl never.
Arguments Z.opp : simpl never.
Arguments Z.leb : simpl never.
Arguments Z.ltb : simpl never.
Arguments Z.eqb : simpl never.

(* ------------------------------------------------------------------ parser-state invariants *)
Definition tie_ok (n : Z) (t : list (Z * Z)) : Prop :=
  t = [] \/ (map fst t = cids_upto n /\ NoDup (map snd t)).
Definition nick_ok (n : Z) (nc : list (ustr * Z)) (nn : list (Z * ustr)) : Prop :=
  nc = [] \/ (map fst nn = cids_upto n /\ NoDup (map snd nn)).

(* what the option phase establishes and the ballot phase leaves alone *)
Definition optinv (n : Z) (st : pst) : Prop :=
  s_nCand st = n /\ 0 <= n /\ 0 <= s_nSeats st /\
  Forall (in_range n) (s_withdrawn st) /\ Forall (in_range n) (s_undeclared st) /\
  Forall (fun kv => in_range n (snd kv)) (s_nickCid st) /\
  tie_ok n (s_tieOrder st) /\ nick_ok n (s_nickCid st) (s_nickName st).
Definition optproj (st : pst) :=
  (s_nCand st, s_nSeats st, s_withdrawn st, s_undeclared st, s_tieOrder st, s_nickName st, s_nickCid st, s_options st).
(* what the ballot phase establishes *)
Definition balinv (n : Z) (st : pst) : Prop :=
  Forall (line_ok n (s_withdrawn st)) (s_lines st) /\ Forall (eline_ok n (s_withdrawn st)) (s_linesEq st) /\
  s_nBallots st = sum_mult (s_lines st) + sum_mult (s_linesEq st).
Definition balproj (st : pst) := (s_nBallots st, s_lines st, s_linesEq st, s_ballotIDs st).

Lemma optinv_proj n st st' : optproj st' = optproj st -> optinv n st -> optinv n st'.
Proof. unfold optproj, optinv. intro H. inversion H as [[H1 H2 H3 H4 H5 H6 H7 H8]]. rewrite H1, H2, H3, H4, H5, H6, H7. auto. Qed.

Lemma getCid_spec n st t : optinv n st -> epe_only (in_range n) (getCid st t).
Proof.
  intros (Hn & Hn0 & Hs & Hw & Hu & Hnc & Ht & Hk). unfold getCid.
  destruct (all_digits t) eqn:E.
  - eapply epe_bind; [apply (p_int_digits t E)|]. intros a [Ha _].
    destruct ((0 <? a) && (a <=? s_nCand st)) eqn:E2; simpl; auto.
    apply andb_true_iff in E2. destruct E2 as [E3 E4]. apply Z.ltb_lt in E3. apply Z.leb_le in E4.
    unfold in_range. lia.
  - destruct (s_nickCid st) as [|kv0 nc0] eqn:Enc; [simpl; auto|].
    destruct (smap_get t (kv0 :: nc0)) as [c|] eqn:Eg; [|simpl; auto]. simpl epe_only.
    apply smap_get_some in Eg. rewrite Forall_forall in Hnc. apply (Hnc _ Eg).
Qed.

Lemma map_res_spec {A B} (f : A -> res B) (P : B -> Prop) l :
  (forall x, epe_only P (f x)) -> epe_only (Forall P) (map_res f l).
Proof.
  intro Hf. induction l as [|x t IH]; simpl; [constructor|].
  eapply epe_bind; [apply Hf|]. intros y Hy. eapply epe_bind; [apply IH|]. intros ys Hys. simpl. constructor; auto.
Qed.

(* --- [tie] *)
Definition tieacc_ok (n o : Z) (acc : list (Z * Z)) : Prop :=
  sfrom 1 (map fst acc) /\ Forall (fun k => k < n + 1) (map fst acc) /\ NoDup (map snd acc) /\
  Forall (fun v => v <= o) (map snd acc).

Lemma tie_loop_spec n st l : optinv n st -> forall o acc, tieacc_ok n o acc ->
  epe_only (fun acc' => exists o', tieacc_ok n o' acc') (tie_loop st l o acc).
Proof.
  intro Hinv. induction l as [|t rest IH]; simpl; intros o acc Hacc.
  - exists o. exact Hacc.
  - eapply epe_bind; [apply (getCid_spec n st t Hinv)|]. intros cid [Hc1 Hc2].
    apply IH. destruct Hacc as (H1 & H2 & H3 & H4). repeat split.
    + apply zmap_set_sfrom; auto.
    + apply Forall_forall. intros x Hx. destruct (zmap_set_keys _ _ _ _ Hx) as [->|Hx']; [lia|].
      rewrite Forall_forall in H2. auto.
    + apply zmap_set_nodup; auto. intro Hin. rewrite Forall_forall in H4. specialize (H4 _ Hin). lia.
    + apply Forall_forall. intros x Hx. destruct (zmap_set_vals _ _ _ _ Hx) as [->|Hx']; [lia|].
      rewrite Forall_forall in H4. specialize (H4 _ Hx'). lia.
Qed.

Lemma option_tie_spec n st l : optinv n st ->
  epe_only (fun st' => optinv n st' /\ balproj st' = balproj st) (option_tie st l).
Proof.
  intro Hinv. unfold option_tie. eapply epe_bind.
  - apply (tie_loop_spec n st l Hinv 0 []). repeat split; simpl; auto; constructor.
  - intros acc [o (H1 & H2 & H3 & H4)].
    destruct (Z.of_nat (List.length acc) =? s_nCand st) eqn:E; simpl; auto.
    apply Z.eqb_eq in E. destruct Hinv as (Hn & Hn0 & Hs & Hw & Hu & Hnc & Ht & Hk).
    split; [|reflexivity]. unfold optinv; simpl. repeat split; auto.
    right. split; auto.
    destruct (sfrom_pigeon (map fst acc) 1 (n + 1) ltac:(lia) H1 H2) as [_ Hp].
    rewrite map_length in Hp. apply from_to_upto. apply Hp. lia.
Qed.

(* --- [nick] *)
Lemma nodup_snoc {A} (l : list A) x : NoDup l -> ~ In x l -> NoDup (l ++ [x]).
Proof.
  induction l as [|a l IH]; simpl; intros Hn Hx.
  - constructor; [auto | constructor].
  - inversion Hn as [|? ? Ha Hl]; subst. constructor.
    + intro Hin. apply in_app_or in Hin. destruct Hin as [H|[H|[]]]; [contradiction|].
      subst. apply Hx. left. reflexivity.
    + apply IH; auto.
Qed.

Lemma nick_loop_spec l : forall cid nn nc,
  from_to 1 (map fst nn) (cid + 1) -> map fst nc = rev (map snd nn) -> NoDup (map snd nn) ->
  Forall (fun kv => 1 <= snd kv <= cid) nc -> 0 <= cid ->
  epe_only (fun r => from_to 1 (map fst (fst r)) (cid + Z.of_nat (List.length l) + 1) /\ NoDup (map snd (fst r)) /\
                     Forall (fun kv => 1 <= snd kv <= cid + Z.of_nat (List.length l)) (snd r))
           (nick_loop l cid nn nc).
Proof.
  induction l as [|nick rest IH]; intros cid nn nc H1 H2 H3 H4 H5.
  - simpl. replace (cid + 0 + 1) with (cid + 1) by lia. repeat split; auto.
    eapply Forall_impl; [|exact H4]. simpl. intros; lia.
  - simpl nick_loop. destruct (smap_get nick nc) eqn:E; [simpl; reflexivity|].
    apply smap_get_none in E.
    assert (G := IH (cid + 1) (nn ++ [(cid + 1, nick)]) ((nick, cid + 1) :: nc)).
    simpl List.length. rewrite Nat2Z.inj_succ.
    replace (cid + Z.succ (Z.of_nat (List.length rest))) with (cid + 1 + Z.of_nat (List.length rest)) by lia.
    apply G.
    + rewrite map_app. simpl. apply from_to_app. exact H1.
    + rewrite map_app. simpl. rewrite rev_app_distr. simpl. f_equal. exact H2.
    + rewrite map_app. simpl. rewrite H2 in E. rewrite <- in_rev in E. apply nodup_snoc; assumption.
    + constructor; [simpl; lia|]. eapply Forall_impl; [|exact H4]. simpl. intros; lia.
    + lia.
Qed.

Lemma option_nick_spec n st l : optinv n st ->
  epe_only (fun st' => optinv n st' /\ balproj st' = balproj st) (option_nick st l).
Proof.
  intro Hinv. unfold option_nick.
  destruct (Z.of_nat (List.length l) =? s_nCand st) eqn:E; simpl negb; cbv iota; [|simpl; reflexivity].
  apply Z.eqb_eq in E. destruct Hinv as (Hn & Hn0 & Hs & Hw & Hu & Hnc & Ht & Hk).
  eapply epe_bind.
  - apply (nick_loop_spec l 0 [] []); simpl; auto; try constructor. lia.
  - intros [nn nc] (H1 & H2 & H3). simpl in H1, H2, H3. simpl.
    split; [|reflexivity]. unfold optinv; simpl. repeat split; auto.
    + eapply Forall_impl; [|exact H3]. intros kv Hkv. simpl in Hkv. unfold in_range. lia.
    + right. split; auto. apply from_to_upto. replace (n + 1) with (0 + Z.of_nat (List.length l) + 1) by lia. exact H1.
Qed.

Lemma cidset_loop_spec n st l : optinv n st -> forall acc, Forall (in_range n) acc ->
  epe_only (Forall (in_range n)) (cidset_loop st l acc).
Proof.
  intro Hinv. induction l as [|t rest IH]; simpl; intros acc Hacc; auto.
  eapply epe_bind; [apply (getCid_spec n st t Hinv)|]. intros cid Hc.
  destruct (zmem cid acc); simpl; auto. apply IH. apply forall_zset_add; auto.
Qed.

Lemma apply_option_spec n st name l : optinv n st ->
  epe_only (fun st' => optinv n st' /\ balproj st' = balproj st) (apply_option st name l).
Proof.
  intro Hinv. unfold apply_option.
  destruct (ustr_eqb name s_tie); [apply option_tie_spec; auto|].
  destruct (ustr_eqb name s_nick); [apply option_nick_spec; auto|].
  pose proof Hinv as (Hn & Hn0 & Hs & Hw & Hu & Hnc & Ht & Hk).
  destruct (ustr_eqb name s_droop).
  { simpl. split; [|reflexivity]. unfold optinv; simpl. repeat split; auto. }
  destruct (ustr_eqb name s_withdrawn_kw).
  { eapply epe_bind; [apply (cidset_loop_spec n st l Hinv _ Hw)|]. intros w Hw'. simpl.
    split; [|reflexivity]. unfold optinv; simpl. repeat split; auto. }
  destruct (ustr_eqb name s_undeclared_kw).
  { eapply epe_bind; [apply (cidset_loop_spec n st l Hinv _ Hu)|]. intros u Hu'. simpl.
    split; [|reflexivity]. unfold optinv; simpl. repeat split; auto. }
  simpl. reflexivity.
Qed.

(* ------------------------------------------------------------------ outcome predicates for pres *)
Definition pepe_only {A} (P : A -> Prop) (r : pres A) : Prop :=
  match r with POk a => P a | PStop => True | PRaise e => e = ElectionProfileError end.

Lemma pepe_bind_lift {A B} (P : A -> Prop) (Q : B -> Prop) (r : res A) (f : A -> pres B) :
  epe_only P r -> (forall a, P a -> pepe_only Q (f a)) -> pepe_only Q (pbind (lift r) f).
Proof. destruct r as [a|e]; simpl; auto. Qed.

Lemma opts_spec n toks : forall st m, optinv n st ->
  pepe_only (fun r => optinv n (fst r) /\ balproj (fst r) = balproj st) (opts toks st m).
Proof.
  induction toks as [|tok rest IH]; intros st m Hinv; simpl; [exact I|].
  destruct m as [|name acc].
  - destruct (starts_with [cLBRK] tok).
    { destruct (ends_with [cRBRK] (lstrip_c cLBRK tok)).
      - eapply pepe_bind_lift; [apply (apply_option_spec n st _ _ Hinv)|].
        intros st' [Hst' Hb]. specialize (IH st' ONone Hst'). rewrite Hb in IH. exact IH.
      - apply IH; auto. }
    destruct (starts_with [cLPAR] tok); [simpl; auto|].
    destruct (is_sdigits tok); [|simpl; reflexivity].
    eapply pepe_bind_lift; [apply (p_int_clean tok)|]. intros v _.
    destruct (- v <=? 0) eqn:E0; [simpl; auto|].
    destruct (s_nCand st <? - v) eqn:E1; [simpl; reflexivity|].
    destruct (zmem (- v) (s_withdrawn st)); [simpl; reflexivity|].
    apply Z.leb_gt in E0. apply Z.ltb_ge in E1.
    pose proof Hinv as (Hn & Hn0 & Hs & Hw & Hu & Hnc & Ht & Hk).
    assert (Hst' : optinv n (set_withdrawn st (zset_add (- v) (s_withdrawn st)))).
    { unfold optinv; simpl. repeat split; auto. apply forall_zset_add; auto. unfold in_range. lia. }
    specialize (IH _ ONone Hst'). exact IH.
  - destruct (ends_with [cRBRK] tok).
    + eapply pepe_bind_lift; [apply (apply_option_spec n st _ _ Hinv)|].
      intros st' [Hst' Hb]. specialize (IH st' ONone Hst'). rewrite Hb in IH. exact IH.
    + apply IH; auto.
Qed.

(* ------------------------------------------------------------------ BallotLine *)
Definition ovf_or_epe (n : Z) (e : exn) : Prop :=
  e = ElectionProfileError \/ (e = OverflowError /\ 18446744073709551616 <= n).
Definition epe2 {A} (n : Z) (P : A -> Prop) (r : res A) : Prop :=
  match r with Ok a => P a | Raise e => ovf_or_epe n e end.
Definition pepe2 {A} (n : Z) (P : A -> Prop) (r : pres A) : Prop :=
  match r with POk a => P a | PStop => True | PRaise e => ovf_or_epe n e end.

Lemma epe_epe2 {A} n (P : A -> Prop) r : epe_only P r -> epe2 n P r.
Proof. destruct r; simpl; auto. intro; left; auto. Qed.
Lemma pepe2_bind_lift {A B} n (P : A -> Prop) (Q : B -> Prop) (r : res A) (f : A -> pres B) :
  epe2 n P r -> (forall a, P a -> pepe2 n Q (f a)) -> pepe2 n Q (pbind (lift r) f).
Proof. destruct r as [a|e]; simpl; auto. Qed.

Lemma sum_mult_app {X} (l : list (Z * X)) m r : sum_mult (l ++ [(m, r)]) = sum_mult l + m.
Proof. induction l as [|[a b] t IH]; simpl; [lia|]. unfold sum_mult in *. simpl. rewrite IH. lia. Qed.

Lemma ballot_line_spec n st m ranking : optinv n st -> balinv n st -> 1 <= m ->
  Forall (Forall (in_range n)) ranking ->
  epe2 n (fun st' => optproj st' = optproj st /\ balinv n st') (ballot_line st m ranking).
Proof.
  intros Hinv (Hl & Hle & Htot) Hm Hr. unfold ballot_line. cbv zeta.
  set (w := s_withdrawn st) in *.
  set (f := fun c => negb (zmem c w)).
  set (ne := fun r : list Z => match r with [] => false | _ => true end).
  set (ranks1 := map (filter f) ranking).
  assert (H1 : Forall (Forall (fun c => in_range n c /\ ~ In c w)) ranks1).
  { subst ranks1. apply Forall_forall. intros r Hr'. apply in_map_iff in Hr'. destruct Hr' as [r0 [<- Hr0]].
    rewrite Forall_forall in Hr. specialize (Hr _ Hr0). apply Forall_forall. intros c Hc. apply filter_In in Hc.
    destruct Hc as [Hc1 Hc2]. rewrite Forall_forall in Hr. split; auto. subst f. simpl in Hc2.
    apply negb_true_iff in Hc2. apply zmem_notin; auto. }
  assert (H2 : forall r, In r (filter ne ranks1) <-> In r ranks1 /\ r <> []).
  { intro r. rewrite filter_In. subst ne. simpl. destruct r; split; intros [A B]; split; auto; congruence. }
  destruct (filter ne ranks1) as [|r0 rs] eqn:E3.
  { simpl. split; [reflexivity | repeat split; auto]. }
  rewrite <- E3 in *.
  assert (Hne : filter ne ranks1 <> []) by (rewrite E3; discriminate).
  assert (H3 : Forall (fun g => g <> []) (filter ne ranks1)).
  { apply Forall_forall. intros r Hr'. apply H2 in Hr'. tauto. }
  assert (H4 : Forall (Forall (fun c => in_range n c /\ ~ In c w)) (filter ne ranks1)).
  { apply Forall_forall. intros r Hr'. apply H2 in Hr'. rewrite Forall_forall in H1. apply H1. tauto. }
  destruct (existsb (fun r => 1 <? Z.of_nat (List.length r)) ranks1) eqn:Eeq.
  - simpl. split; [reflexivity|]. unfold balinv; simpl. fold w. repeat split; auto.
    + apply Forall_app. split; auto. constructor; [|constructor]. unfold eline_ok; simpl. repeat split; auto.
      apply existsb_exists in Eeq. destruct Eeq as [r [Hr1 Hr2]]. apply Z.ltb_lt in Hr2.
      apply Exists_exists. exists r. split; [|lia]. apply H2. split; auto. intro; subst; simpl in Hr2; lia.
    + rewrite sum_mult_app. lia.
  - destruct (existsb (fun c => (c <? 0) || (array_max (s_nCand st) <? c)) (map (fun r => hd 0 r) (filter ne ranks1))) eqn:Eov.
    + simpl. right. split; auto.
      apply existsb_exists in Eov. destruct Eov as [c [Hc1 Hc2]]. apply in_map_iff in Hc1.
      destruct Hc1 as [r [Hrc Hr']]. rewrite Forall_forall in H4. pose proof (H4 _ Hr') as Hr4.
      rewrite Forall_forall in H3. pose proof (H3 _ Hr') as Hr3.
      destruct r as [|c0 r']; [congruence|]. simpl in Hrc. subst c0. inversion Hr4 as [|? ? [[Hc3 Hc4] _] _]; subst.
      destruct Hinv as (Hn & _). rewrite Hn in Hc2. unfold array_max in Hc2.
      apply orb_true_iff in Hc2. destruct Hc2 as [Hc2|Hc2]; [apply Z.ltb_lt in Hc2; lia|].
      destruct (n <? 256) eqn:E1; [apply Z.ltb_lt in E1, Hc2; lia|].
      destruct (n <? 65536) eqn:E2; [apply Z.ltb_lt in E2, Hc2; lia|].
      apply Z.ltb_lt in Hc2. lia.
    + simpl. split; [reflexivity|]. unfold balinv; simpl. fold w. repeat split; auto.
      * apply Forall_app. split; auto. constructor; [|constructor]. unfold line_ok; simpl. repeat split; auto.
        -- destruct (filter ne ranks1); [congruence | simpl; discriminate].
        -- apply Forall_forall. intros c Hc. apply in_map_iff in Hc. destruct Hc as [r [Hrc Hr']].
           rewrite Forall_forall in H4. pose proof (H4 _ Hr') as Hr4.
           rewrite Forall_forall in H3. pose proof (H3 _ Hr') as Hr3.
           destruct r as [|c0 r']; [congruence|]. simpl in Hrc. subst c0. inversion Hr4; subst. assumption.
      * rewrite sum_mult_app. lia.
Qed.

(* ------------------------------------------------------------------ ballots *)
Definition mode_ok (n : Z) (m : bmode) : Prop :=
  match m with BRank mult r => 1 <= mult /\ Forall (Forall (in_range n)) r | _ => True end.

Lemma finish_bid_spec n st bid : balinv n st ->
  epe_only (fun st' => optproj st' = optproj st /\ balinv n st') (finish_bid st bid).
Proof.
  intro Hb. unfold finish_bid. destruct (smem _ _); simpl; auto.
Qed.

Lemma balinv_proj n st st' : s_withdrawn st' = s_withdrawn st -> balproj st' = balproj st -> balinv n st -> balinv n st'.
Proof. unfold balproj, balinv. intros Hw H. inversion H as [[H1 H2 H3 H4]]. rewrite Hw, H1, H2, H3. auto. Qed.

Lemma optproj_withdrawn st st' : optproj st' = optproj st -> s_withdrawn st' = s_withdrawn st.
Proof. unfold optproj. intro H. inversion H. auto. Qed.

Lemma ballots_spec n toks : forall st m, optinv n st -> balinv n st -> mode_ok n m ->
  pepe2 n (fun r => optproj (fst r) = optproj st /\ balinv n (fst r)) (ballots toks st m).
Proof.
  induction toks as [|tok rest IH]; intros st m Hinv Hbal Hm; simpl; [exact I|].
  assert (Hstep : forall st' m', optproj st' = optproj st -> balinv n st' -> mode_ok n m' ->
            pepe2 n (fun r => optproj (fst r) = optproj st /\ balinv n (fst r)) (ballots rest st' m')).
  { intros st' m' Hp Hb' Hm'. assert (Hinv' := optinv_proj n st st' Hp Hinv).
    specialize (IH st' m' Hinv' Hb' Hm'). rewrite Hp in IH. exact IH. }
  destruct m as [|bid|mult ranking].
  - destruct (starts_with [cLPAR] tok).
    { destruct (ends_with [cRPAR] tok).
      - eapply pepe2_bind_lift; [apply epe_epe2; apply (finish_bid_spec n st tok Hbal)|].
        intros st' [Hp Hb']. apply Hstep; auto. simpl. split; [lia | constructor].
      - apply Hstep; simpl; auto. }
    destruct (all_digits tok) eqn:Ed; [|simpl; left; reflexivity].
    eapply pepe2_bind_lift; [apply epe_epe2; apply (p_int_digits tok Ed)|].
    intros mult [Hmult _]. destruct (mult =? 0) eqn:E0.
    + simpl. auto.
    + apply Z.eqb_neq in E0. apply Hstep; simpl; auto. split; [lia | constructor].
  - destruct (ends_with [cRPAR] (bid ++ cSP :: tok)).
    + eapply pepe2_bind_lift; [apply epe_epe2; apply (finish_bid_spec n st _ Hbal)|].
      intros st' [Hp Hb']. apply Hstep; auto. simpl. split; [lia | constructor].
    + apply Hstep; simpl; auto.
  - destruct Hm as [Hm1 Hm2]. destruct (ustr_eqb tok [cZERO]).
    + eapply pepe2_bind_lift with (P := fun st' => optproj st' = optproj st /\ balinv n st').
      * destruct ranking as [|r0 rs]; [simpl; auto|]. apply ballot_line_spec; auto.
      * intros st' [Hp Hb']. apply Hstep; simpl; auto.
    + eapply pepe2_bind_lift; [apply epe_epe2; apply (map_res_spec (getCid st) (in_range n)); intro; apply getCid_spec; auto|].
      intros cids Hc. apply Hstep; simpl; auto. split; auto. apply Forall_app. split; auto.
Qed.

(* ------------------------------------------------------------------ names, strings *)
Lemma names_spec n toks : 0 <= n -> forall cid cur acc,
  match cur with Some _ => cid <= n | None => cid <= n + 1 end -> from_to 1 (map fst acc) cid ->
  pepe_only (fun r => map fst (fst r) = cids_upto n) (names toks n cid cur acc).
Proof.
  intro Hn. induction toks as [|t rest IH]; intros cid cur acc Hc Hacc.
  - destruct cur; simpl; auto. destruct (n <? cid) eqn:E; simpl; auto.
    apply Z.ltb_lt in E. assert (cid = n + 1) by lia. subst cid. apply from_to_upto in Hacc. tauto.
  - assert (Hnext : forall nm, from_to 1 (map fst (acc ++ [(cid, nm)])) (cid + 1)).
    { intros nm. rewrite map_app. simpl. apply from_to_app. exact Hacc. }
    destruct cur as [name|]; simpl.
    + destruct (ends_with [cQUOTE] (name ++ cSP :: t)).
      * apply IH; [lia | apply Hnext].
      * apply IH; auto.
    + destruct (n <? cid) eqn:E.
      * simpl. apply Z.ltb_lt in E. assert (cid = n + 1) by lia. subst cid. apply from_to_upto in Hacc. tauto.
      * apply Z.ltb_ge in E. destruct (starts_with [cQUOTE] t); simpl; auto.
        destruct (ends_with [cQUOTE] t).
        -- apply IH; [lia | apply Hnext].
        -- apply IH; auto.
Qed.

Lemma opt_string_clean toks : pepe_only (fun _ => True) (opt_string toks).
Proof.
  unfold opt_string. destruct toks as [|tok rest]; simpl; auto.
  destruct (starts_with [cQUOTE] tok); simpl; auto.
  destruct (read_quoted rest tok) as [[s r]|]; simpl; auto.
Qed.

Lemma pepe_bind {A B} (P : A -> Prop) (Q : B -> Prop) (r : pres A) (f : A -> pres B) :
  pepe_only P r -> (forall a, P a -> pepe_only Q (f a)) -> pepe_only Q (pbind r f).
Proof. destruct r as [a| |e]; simpl; auto. Qed.
Lemma pepe2_bind {A B} n (P : A -> Prop) (Q : B -> Prop) (r : pres A) (f : A -> pres B) :
  pepe2 n P r -> (forall a, P a -> pepe2 n Q (f a)) -> pepe2 n Q (pbind r f).
Proof. destruct r as [a| |e]; simpl; auto. Qed.
Lemma pepe_impl {A} (P Q : A -> Prop) r : pepe_only P r -> (forall a, P a -> Q a) -> pepe_only Q r.
Proof. destruct r; simpl; auto. Qed.
Lemma pepe_pepe2 {A} n (P : A -> Prop) r : pepe_only P r -> pepe2 n P r.
Proof. destruct r; simpl; auto. intro; left; auto. Qed.

Lemma parse_tail_spec st toks : 0 <= s_nCand st ->
  pepe_only (fun r => r_st r = st /\ map fst (r_names r) = cids_upto (s_nCand st)) (parse_tail st toks).
Proof.
  intro Hn. unfold parse_tail.
  destruct (_ && _); [simpl; reflexivity|].
  eapply pepe_bind; [apply (names_spec (s_nCand st) toks Hn 1 None []); simpl; auto; lia|].
  intros [nm toks1] Hnm. simpl in Hnm.
  destruct toks1 as [|tok rest]; [simpl; auto|].
  destruct (starts_with [cQUOTE] tok); simpl negb; cbv iota; [|simpl; reflexivity].
  destruct (read_quoted rest tok) as [[s toks2]|]; [|simpl; reflexivity].
  eapply pepe_bind; [apply opt_string_clean|]. intros so _.
  destruct so as [[src toks3]|]; [|simpl; auto].
  eapply pepe_bind; [apply opt_string_clean|]. intros co _.
  destruct co as [[com toks4]|]; simpl; auto.
Qed.

Definition first_num (toks : list ustr) : Z := match toks with t :: _ => int_of_digits t | [] => 0 end.

Definition parsed_ok (r : parsed) : Prop :=
  exists n, optinv n (r_st r) /\ balinv n (r_st r) /\ map fst (r_names r) = cids_upto n.

Lemma blt_parse_raw_spec toks : pepe2 (first_num toks) parsed_ok (blt_parse_raw toks).
Proof.
  unfold blt_parse_raw. destruct toks as [|t1 r1]; [simpl; auto|].
  destruct (all_digits t1) eqn:E1; simpl negb; cbv iota; [|simpl; left; reflexivity].
  eapply pepe2_bind_lift; [apply epe_epe2; apply (p_int_digits t1 E1)|]. intros nc [Hnc Hnc'].
  simpl first_num. rewrite <- Hnc'.
  destruct r1 as [|t2 r2]; [simpl; auto|].
  destruct (all_digits t2) eqn:E2; simpl negb; cbv iota; [|simpl; left; reflexivity].
  eapply pepe2_bind_lift; [apply epe_epe2; apply (p_int_digits t2 E2)|]. intros ns [Hns _].
  assert (Hi : optinv nc (init_pst nc ns)).
  { unfold optinv, init_pst; simpl. repeat split; auto; try lia; try (left; reflexivity); constructor. }
  assert (Hb : balinv nc (init_pst nc ns)).
  { unfold balinv, init_pst; simpl. repeat split; auto. }
  eapply pepe2_bind; [apply pepe_pepe2; apply (opts_spec nc r2 _ ONone Hi)|].
  intros [st1 toks1] [Ho1 Hb1]. simpl in Ho1, Hb1.
  assert (Hb1' : balinv nc st1).
  { unfold balinv. unfold balproj in Hb1. inversion Hb1 as [[A B C D]]. rewrite A, B, C. simpl. repeat split; auto. }
  eapply pepe2_bind; [apply (ballots_spec nc toks1 st1 BHead Ho1 Hb1' I)|].
  intros [st2 toks2] [Ho2 Hb2]. simpl in Ho2, Hb2.
  assert (Ho2' := optinv_proj nc st1 st2 Ho2 Ho1).
  assert (Hn2 : s_nCand st2 = nc) by (destruct Ho2' as [A _]; exact A).
  apply pepe_pepe2. eapply pepe_impl; [apply (parse_tail_spec st2 toks2); lia|].
  intros r [Hr1 Hr2]. exists nc. rewrite Hr1. rewrite Hn2 in Hr2. auto.
Qed.

(* ------------------------------------------------------------------ str(cid) is injective on cids >= 1 *)
Lemma string_of_Z_inj_pos a b : 1 <= a -> 1 <= b -> string_of_Z a = string_of_Z b -> a = b.
Proof.
  intros Ha Hb H. unfold string_of_Z in H.
  assert (G : forall z, 1 <= z -> DecimalString.NilZero.int_of_string (DecimalString.NilZero.string_of_int (Z.to_int z)) = Some (Z.to_int z)).
  { intros z Hz. destruct z as [|p|p]; try lia. apply DecimalString.NilZero.isi; simpl; intro E; inversion E as [E'];
    apply (DecimalPos.Unsigned.to_uint_nonnil p E'). }
  pose proof (G a Ha) as Ga. pose proof (G b Hb) as Gb. rewrite H in Ga. rewrite Ga in Gb. inversion Gb as [E].
  apply DecimalZ.to_int_inj. exact E.
Qed.

Lemma ustr_of_string_inj s1 s2 : ustr_of_string s1 = ustr_of_string s2 -> s1 = s2.
Proof.
  unfold ustr_of_string. intro H.
  assert (G : list_ascii_of_string s1 = list_ascii_of_string s2).
  { revert H. generalize (list_ascii_of_string s1) (list_ascii_of_string s2).
    intros l1. induction l1 as [|a l IH]; intros l2; destruct l2 as [|b l0]; simpl; intro H; try discriminate; auto.
    inversion H as [[H1 H2]]. f_equal; auto.
    apply N2Z.inj in H1. rewrite <- (ascii_N_embedding a), <- (ascii_N_embedding b). rewrite H1. reflexivity. }
  rewrite <- (string_of_list_ascii_of_string s1), <- (string_of_list_ascii_of_string s2). rewrite G. reflexivity.
Qed.

Lemma nodup_map_inj_in {A B} (f : A -> B) l :
  (forall x y, In x l -> In y l -> f x = f y -> x = y) -> NoDup l -> NoDup (map f l).
Proof.
  induction l as [|a l IH]; simpl; intros Hinj Hn; [constructor|].
  inversion Hn as [|? ? Ha Hl]; subst. constructor.
  - intro Hin. apply in_map_iff in Hin. destruct Hin as [y [Hy1 Hy2]].
    assert (y = a) by (apply Hinj; auto). subst. contradiction.
  - apply IH; auto.
Qed.

Lemma nodup_default_nicks n : NoDup (map ustr_of_Z (cids_upto n)).
Proof.
  apply nodup_map_inj_in; [|apply nodup_cids_upto].
  intros x y Hx Hy H. apply in_cids_upto in Hx, Hy. unfold ustr_of_Z in H. apply ustr_of_string_inj in H.
  apply string_of_Z_inj_pos; auto; lia.
Qed.

(* ------------------------------------------------------------------ __validate, defaults *)
Lemma existsb_false_forall {A} (f : A -> bool) l : existsb f l = false -> Forall (fun x => f x = false) l.
Proof.
  induction l as [|a l IH]; simpl; intro H; constructor.
  - apply orb_false_iff in H. tauto.
  - apply IH. apply orb_false_iff in H. tauto.
Qed.

Lemma finish_spec r : parsed_ok r -> epe_only valid_profile (finish r).
Proof.
  intros [n (Ho & Hb & Hnm)]. unfold finish. cbv zeta.
  set (st := r_st r) in *.
  set (elig := filter (fun c => negb (zmem c (s_withdrawn st))) (map fst (r_names r))).
  destruct Ho as (Hn & Hn0 & Hs & Hw & Hu & Hnc & Ht & Hk). destruct Hb as (Hl & Hle & Htot).
  unfold validate.
  destruct ((s_nSeats st =? 0) || (Z.of_nat (List.length elig) <? s_nSeats st)) eqn:E1; [simpl; reflexivity|].
  destruct (s_nBallots st <? Z.of_nat (List.length elig)) eqn:E2; [simpl; reflexivity|].
  destruct (existsb (fun bl => has_dup (snd bl)) (s_lines st)) eqn:E3; [simpl; reflexivity|].
  destruct (existsb (fun bl => has_dup (concat (snd bl))) (s_linesEq st)) eqn:E4; [simpl; reflexivity|].
  simpl. apply orb_false_iff in E1. destruct E1 as [E1a E1b].
  apply Z.eqb_neq in E1a. apply Z.ltb_ge in E1b. apply Z.ltb_ge in E2.
  constructor; simpl; fold st; fold elig; rewrite ?Hn; auto.
  - lia.
  - intro c. subst elig. rewrite filter_In. rewrite Hnm. rewrite in_cids_upto. unfold in_range.
    rewrite negb_true_iff. rewrite zmem_notin. tauto.
  - subst elig. apply NoDup_filter. rewrite Hnm. apply nodup_cids_upto.
  - apply existsb_false_forall in E3. eapply Forall_impl; [|exact E3]. intros bl Hbl. apply has_dup_nodup. exact Hbl.
  - apply existsb_false_forall in E4. eapply Forall_impl; [|exact E4]. intros bl Hbl. apply has_dup_nodup. exact Hbl.
  - rewrite <- Hnm. rewrite map_map. reflexivity.
  - destruct (s_tieOrder st) as [|t0 ts] eqn:Et.
    + rewrite !map_map. simpl. rewrite map_id. split; [reflexivity | apply nodup_cids_upto].
    + destruct Ht as [Ht|Ht]; [discriminate | exact Ht].
  - destruct (s_nickCid st) as [|k0 ks] eqn:Ek.
    + rewrite !map_map. simpl. rewrite map_id. split; [reflexivity | apply nodup_default_nicks].
    + destruct Hk as [Hk|Hk]; [discriminate | exact Hk].
Qed.

(* ------------------------------------------------------------------ C16 *)
Lemma parse_tokens_spec toks : epe2 (first_num toks) valid_profile (parse_tokens toks).
Proof.
  unfold parse_tokens, blt_parse. pose proof (blt_parse_raw_spec toks) as H.
  destruct (blt_parse_raw toks) as [r| |e]; simpl in *.
  - apply epe_epe2. apply finish_spec. exact H.
  - left. reflexivity.
  - exact H.
Qed.

Lemma parse_spec text : epe2 (declared_ncand text) valid_profile (parse text).
Proof.
  unfold parse, declared_ncand. destruct text as [|c t]; [simpl; left; reflexivity|]. apply parse_tokens_spec.
Qed.

Lemma c16_accepted_is_valid : forall text p, parse text = Ok p -> valid_profile p.
Proof. intros text p H. pose proof (parse_spec text) as G. rewrite H in G. exact G. Qed.

Lemma c16_total_clean_partial : forall text, exists r, parse text = r /\
  ((exists p, r = Ok p) \/ r = Raise ElectionProfileError \/
   (r = Raise OverflowError /\ 18446744073709551616 <= declared_ncand text)).
Proof.
  intro text. exists (parse text). split; [reflexivity|]. pose proof (parse_spec text) as G.
  destruct (parse text) as [p|e]; simpl in G.
  - left. exists p. reflexivity.
  - destruct G as [->|[-> Hn]]; [right; left; reflexivity | right; right; split; [reflexivity | exact Hn]].
Qed.

Lemma c16_clean_below_2_64 : forall text, declared_ncand text < 18446744073709551616 ->
  exists r, parse text = r /\ ((exists p, r = Ok p) \/ r = Raise ElectionProfileError).
Proof.
  intros text Hlt. destruct (c16_total_clean_partial text) as [r [Hr [H|[H|[_ H]]]]]; exists r; split; auto. lia.
Qed.

Lemma strip_bom_declared : forall text p, parse_file text = Ok p -> valid_profile p.
Proof. intros text p H. unfold parse_file in H. eapply c16_accepted_is_valid; eauto. Qed.

(* ------------------------------------------------------------------ the constructor's lookups *)
Lemma zmap_get_in {V} k (l : list (Z * V)) : In k (map fst l) -> exists v, zmap_get k l = Some v.
Proof.
  induction l as [|[k' v'] t IH]; intro H; [destruct H|]. cbn [zmap_get]. cbn [map fst] in H.
  destruct (k' =? k) eqn:E; [exists v'; reflexivity|].
  destruct H as [H|H]; [apply Z.eqb_neq in E; congruence | apply IH; exact H].
Qed.

Lemma c16_ctor_lookups : forall p, valid_profile p -> election_init_lookups p = Ok tt.
Proof.
  intros p Hv. unfold election_init_lookups.
  assert (Hr : Forall (in_range (p_nCand p)) (fold_left (fun acc c => zset_add c acc) (p_withdrawn p) (p_eligible p))).
  { assert (G : forall l acc, Forall (in_range (p_nCand p)) l -> Forall (in_range (p_nCand p)) acc ->
                 Forall (in_range (p_nCand p)) (fold_left (fun acc c => zset_add c acc) l acc)).
    { induction l as [|c l IH]; intros acc Hl Hacc; [exact Hacc|]. inversion Hl; subst. cbn [fold_left].
      apply IH; [assumption | apply forall_zset_add; assumption]. }
    apply G; [apply (vp_withdrawn p Hv)|]. apply Forall_forall. intros c Hc. apply (vp_eligible p Hv) in Hc. tauto. }
  induction Hr as [|c l Hc _ IH]; [reflexivity|]. cbn [ctor_lookups].
  assert (Hin : In c (cids_upto (p_nCand p))) by (apply in_cids_upto; exact Hc).
  unfold ctor_lookup.
  destruct (zmap_get_in c (p_candOrder p)) as [v1 E1].
  { rewrite (vp_order p Hv). rewrite map_map. cbn [fst]. rewrite map_id. exact Hin. }
  destruct (zmap_get_in c (p_tieOrder p)) as [v2 E2]. { destruct (vp_tie p Hv) as [A _]. rewrite A. exact Hin. }
  destruct (zmap_get_in c (p_candName p)) as [v3 E3]. { rewrite (vp_names p Hv). exact Hin. }
  destruct (zmap_get_in c (p_nickName p)) as [v4 E4]. { destruct (vp_nick p Hv) as [A _]. rewrite A. exact Hin. }
  rewrite E1, E2, E3, E4. cbn [bind]. exact IH.
Qed.

Lemma c16_accepted_ctor : forall text p, parse text = Ok p -> election_init_lookups p = Ok tt.
Proof. intros text p H. apply c16_ctor_lookups. eapply c16_accepted_is_valid. exact H. Qed.

Lemma c16_overflow_witness : parse ex_overflow = Raise OverflowError.
Proof. vm_compute. reflexivity. Qed.
