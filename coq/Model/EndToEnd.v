(* EndToEnd: from a parsed ballot file (Model/Profile.v, the reader model) to the profile the count model starts from
   (Model/Election.v) -- what Election.__init__ reads off the ElectionProfile object.  Definitions only. *)
From Coq Require Import ZArith List Bool String Ascii.
From Droop Require Import Model.KernelBase Model.Str Model.Profile Model.Election.
Import ListNotations.
Open Scope Z_scope.

Definition utf8_encode1 (c : Z) : list Z :=
  if c <? 128 then [c]
  else if c <? 2048 then [192 + c / 64; 128 + c mod 64]
  else if c <? 65536 then [224 + c / 4096; 128 + (c / 64) mod 64; 128 + c mod 64]
  else [240 + c / 262144; 128 + (c / 4096) mod 64; 128 + (c / 64) mod 64; 128 + c mod 64].
Fixpoint bytes_to_string (l : list Z) : string :=
  match l with [] => EmptyString | b :: t => String (Ascii.ascii_of_N (Z.to_N b)) (bytes_to_string t) end.
Definition utf8_string (u : ustr) : string := bytes_to_string (flat_map utf8_encode1 u).

Definition assocZ {X} (l : list (Z * X)) (c : Z) (d : X) : X :=
  match find (fun x => fst x =? c) l with Some x => snd x | None => d end.
Definition memZ (c : Z) (l : list Z) : bool := existsb (Z.eqb c) l.

Definition to_pcand (p : Profile.profile) (c : Z) : pcand :=
  mkPcand c (assocZ (p_candOrder p) c c) (assocZ (p_tieOrder p) c c)
          (utf8_string (assocZ (p_candName p) c [])) (utf8_string (assocZ (p_nickName p) c []))
          (memZ c (p_withdrawn p)) (memZ c (p_undeclared p)).

Definition to_count_profile (p : Profile.profile) : Election.profile :=
  mkProfile (p_nSeats p) (p_nBallots p) (map (to_pcand p) (cids_upto (p_nCand p))) (p_lines p) (p_linesEq p).
