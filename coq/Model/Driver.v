(* Driver: entry point of the extracted model.  A case is a list of tokens
   (integers and strings); the answer is a text block the harness diffs against
   the implementation's canonical text.  Definitions only. *)
From Coq Require Import ZArith QArith List Bool String Ascii.
From Coq Require Import PArith.
From Droop Require Import Model.KernelBase Model.Str Model.Arith Gen.FixedKernels Gen.GuardedKernels
  Model.Prelude Model.State Model.Prims Model.RulesGregory Model.RulesMeek Model.Election.
From Droop Require Export Model.DriverBase.
From Droop Require Import Model.DriverParse.
From Droop Require Export Model.CountCase.
From Droop Require Import Model.Record Model.DriverRender.
From Droop Require Import Model.DriverOptions.
From Droop Require Import Model.Profile Model.EndToEnd.
Import ListNotations.
Open Scope string_scope.
Open Scope Z_scope.

Definition show_resZ (r : res Z) : string :=
  match r with Ok z => "ok " ++ string_of_Z z | Raise e => "exn " ++ exn_name e end.
Definition show_resB (r : res bool) : string :=
  match r with Ok true => "bool 1" | Ok false => "bool 0" | Raise e => "exn " ++ exn_name e end.

Definition mk_operand (kind v : Z) : operand := if kind =? 0 then OInt v else OVal v.
Definition mk_rnd (z : Z) : rnd :=
  if z =? 0 then RDown else if z =? 1 then RUp else if z =? 2 then RNone else ROther.

Fixpoint toks_ints (l : list tok) : list Z :=
  match l with [] => [] | TI z :: t => z :: toks_ints t | TS _ :: t => toks_ints t end.

(* operation codes shared with harness/values_driver.py *)
Definition run_fixed (p d op rn ka a kb b kc c : Z) (rest : list Z) : string :=
  let st := mk_fixed_cls p d in
  let A := mk_operand ka a in let B := mk_operand kb b in let C := mk_operand kc c in
  let r := mk_rnd rn in
  match op with
  | 0 => show_resZ (FixedKernels.init_r st A false)
  | 1 => show_resZ (FixedKernels.dunder_add st a B)
  | 2 => show_resZ (FixedKernels.dunder_sub st a B)
  | 3 => show_resZ (FixedKernels.dunder_neg st a)
  | 4 => show_resZ (FixedKernels.dunder_pos st a)
  | 5 => show_resZ (FixedKernels.dunder_abs st a)
  | 6 => show_resB (FixedKernels.dunder_bool st a)
  | 7 => show_resZ (FixedKernels.dunder_mul st a B)
  | 8 => show_resZ (FixedKernels.dunder_floordiv st a B)
  | 9 => show_resZ (FixedKernels.dunder_truediv st a B)
  | 10 => show_resZ (FixedKernels.mul st A B r)
  | 11 => show_resZ (FixedKernels.div st A B r)
  | 12 => show_resZ (FixedKernels.muldiv st A B C r)
  | 13 => show_resB (FixedKernels.dunder_eq st a B)
  | 14 => show_resB (FixedKernels.dunder_ne st a B)
  | 15 => show_resB (FixedKernels.dunder_lt st a B)
  | 16 => show_resB (FixedKernels.dunder_le st a B)
  | 17 => show_resB (FixedKernels.dunder_gt st a B)
  | 18 => show_resB (FixedKernels.dunder_ge st a B)
  | 20 => show_resZ (FixedKernels.min st rest)
  | 21 => "str " ++ str (Fixed p d) a
  | _ => "badop"
  end.

Definition run_guarded (p g d stale op rn ka a kb b kc c : Z) (rest : list Z) : string :=
  let st := mk_guarded_cls p g d stale in
  let A := mk_operand ka a in let B := mk_operand kb b in let C := mk_operand kc c in
  let r := mk_rnd rn in
  match op with
  | 0 => show_resZ (GuardedKernels.init_r st A false)
  | 1 => show_resZ (GuardedKernels.dunder_add st a B)
  | 2 => show_resZ (GuardedKernels.dunder_sub st a B)
  | 3 => show_resZ (GuardedKernels.dunder_neg st a)
  | 4 => show_resZ (GuardedKernels.dunder_pos st a)
  | 5 => show_resZ (GuardedKernels.dunder_abs st a)
  | 6 => show_resB (GuardedKernels.dunder_bool st a)
  | 7 => show_resZ (GuardedKernels.dunder_mul st a B)
  | 8 => show_resZ (GuardedKernels.dunder_floordiv st a B)
  | 9 => show_resZ (GuardedKernels.dunder_truediv st a B)
  | 10 => show_resZ (GuardedKernels.mul st A B r)
  | 11 => show_resZ (GuardedKernels.div st A B r)
  | 12 => show_resZ (GuardedKernels.muldiv st A B C r)
  | 13 => show_resB (GuardedKernels.dunder_eq st a B)
  | 14 => show_resB (GuardedKernels.dunder_ne st a B)
  | 15 => show_resB (GuardedKernels.dunder_lt st a B)
  | 16 => show_resB (GuardedKernels.dunder_le st a B)
  | 17 => show_resB (GuardedKernels.dunder_gt st a B)
  | 18 => show_resB (GuardedKernels.dunder_ge st a B)
  | 19 => show_resZ (GuardedKernels.dunder_cmp st a B)
  | 20 => show_resZ (GuardedKernels.min st rest)
  | 21 => "str " ++ str (Guarded p g d stale) a
  | 22 => show_resZ (GuardedKernels.dunder_hash st a)
  | _ => "badop"
  end.

Definition mkq (n d : Z) : Q := Qred (Qmake n (Z.to_pos d)).
Definition show_q (q : Q) : string := raw_repr (Rational 0) q.
Definition show_resQ (r : res Q) : string :=
  match r with Ok q => "ok " ++ show_q q | Raise e => "exn " ++ exn_name e end.
Definition showb (b : bool) : string := if b then "bool 1" else "bool 0".

Definition run_rational (dp op rn an ad bn bd cn cd : Z) : string :=
  let R := Rational dp in
  let a := mkq an ad in let b := mkq bn bd in let c := mkq cn cd in
  let r := mk_rnd rn in
  match op with
  | 1 => "ok " ++ show_q (add R a b)
  | 2 => "ok " ++ show_q (sub R a b)
  | 7 => "ok " ++ show_q (mulv R a b)
  | 8 => show_resQ (floordivv R a b)
  | 9 => show_resQ (divv R a b)
  | 10 => "ok " ++ show_q (kmul R a b (rn =? 1))
  | 11 => show_resQ (kdiv R a b (rn =? 1))
  | 12 => show_resQ (kmuldiv R a b c (rn =? 1))
  | 13 => showb (eqv R a b)
  | 14 => showb (nev R a b)
  | 15 => showb (ltv R a b)
  | 16 => showb (lev R a b)
  | 17 => showb (gtv R a b)
  | 18 => showb (gev R a b)
  | 6 => showb (truth R a)
  | 21 => "str " ++ str R a
  | _ => "badop"
  end.

Definition run_values (l : list Z) : string :=
  match l with
  | 0 :: p :: d :: op :: rn :: ka :: a :: kb :: b :: kc :: c :: rest => run_fixed p d op rn ka a kb b kc c rest
  | 1 :: p :: g :: d :: stale :: op :: rn :: ka :: a :: kb :: b :: kc :: c :: rest =>
      run_guarded p g d stale op rn ka a kb b kc c rest
  | 2 :: dp :: op :: rn :: an :: ad :: bn :: bd :: cn :: cd :: _ => run_rational dp op rn an ad bn bd cn cd
  | _ => "badcase"
  end.


Section Show.
Variable A : arith.
Variable m : meth.
Definition showv (v : T A) : string := raw_repr A v ++ "~" ++ str A v.
Definition showov (o : option (T A)) : string := match o with Some v => showv v | None => "-" end.
Definition show_pend (p : option bool) : string :=
  match p with None => "-" | Some true => "1" | Some false => "0" end.
Definition show_csnap (c : csnap A) : string :=
  match sn_st c with
  | Withdrawn => "C " ++ string_of_Z (sn_cid c) ++ " withdrawn W" ++ lf
  | st => "C " ++ string_of_Z (sn_cid c) ++ " " ++ state_name st ++ " " ++ code_of m st (sn_pend c) ++ " " ++
          showv (sn_vote c) ++ " kf=" ++ showov (sn_kf c) ++ " quo=" ++ showov (sn_quo c) ++
          " p=" ++ show_pend (sn_pend c) ++ lf
  end.
Definition show_ballots (l : list (nat * T A)) : string :=
  "B" ++ fold_right (fun '(i, w) acc => " " ++ string_of_Z (Z.of_nat i) ++ ":" ++ raw_repr A w ++ acc) "" l ++ lf.
Definition show_action (a : action A) : string :=
  "A " ++ tag_name (a_tag a) ++ " " ++ string_of_Z (a_round a) ++ " " ++ a_msg a ++ lf ++
  match a_snap a with
  | None => ""
  | Some sn =>
    "S q=" ++ showv (as_quota sn) ++ " v=" ++ showv (as_votes sn) ++ " nt=" ++ showov (as_nt sn) ++
    " s=" ++ showov (as_surplus sn) ++ lf ++
    fold_right (fun c acc => show_csnap c ++ acc) "" (as_c sn) ++ show_ballots (as_ballots sn)
  end.
Definition show_cids (l : list (cand A)) : string :=
  fold_right (fun c acc => " " ++ string_of_Z (cid c) ++ acc) "" l.
Definition show_outcome (o : outcome A) : string :=
  match o with
  | OutOfFuel => "X OutOfFuel"
  | Crashed s e => fold_left (fun acc a => show_action a ++ acc) (actions s) "" ++ "X " ++ exn_name e
  | Done s ok =>
    fold_left (fun acc a => show_action a ++ acc) (actions s) "" ++
    "R elected=" ++ show_cids (electeds A s) ++ " defeated=" ++ show_cids (defeateds A s) ++
    " withdrawn=" ++ show_cids (withdrawns A s) ++ lf ++
    (if ok then "P ok" else "X AssertionError")
  end.
End Show.


(* the token readers, tag_name / state_name / code_of / lf, rule_of / meth_of and parse_count_case live in
   Model.CountCase (shared with DriverRender) *)
Definition run_case (c : count_case) : string :=
  let r := cc_rule c in let cfg := cc_cfg c in let fuel := cc_fuel c in let pr := cc_profile c in
  let p := cc_p c in let g := cc_g c in let d := cc_d c in let stale := cc_stale c in
  if cc_ar c =? 0 then show_outcome (Fixed p d) (meth_of r) (run_count (Fixed p d) cfg fuel r pr)
  else if cc_ar c =? 1 then show_outcome (Guarded p g d stale) (meth_of r) (run_count (Guarded p g d stale) cfg fuel r pr)
  else show_outcome (Rational d) (meth_of r) (run_count (Rational d) cfg fuel r pr).

Definition run_count_case (l : list tok) : string :=
  match parse_count_case l with
  | inl e => e
  | inr c => run_case c
  end.

(* e2e <rulename> rule arith p g d stale omega10 intquota batchzero batch warren fuelbits mode <code point>* :
   the reader model parses the text, the count model counts what it parsed; seats and ballot count come from the
   parsed profile, the rule's configuration from the implementation's option handling (decided under C17) *)
Definition run_e2e (l : list tok) : string :=
  match l with
  | TS rname :: TI rl :: TI ar :: TI p :: TI g :: TI d :: TI stale :: TI om :: TI iq :: TI bz :: TI bt :: TI wa ::
    TI fb :: TI mode :: rest =>
    match (if mode =? 0 then parse (toks_zs rest) else parse_file (toks_zs rest)) with
    | Raise e => "Raise " ++ exn_name e
    | Ok pp =>
      let pr := to_count_profile pp in
      let r := rule_of rl in
      let cfg := mkConfig rname (meth_of r) (pr_nseats pr) (pr_nballots pr) (negb (iq =? 0)) (negb (bz =? 0)) (negb (bt =? 0))
                          (negb (wa =? 0)) om in
      run_case (mkCase r cfg (Pos.pow 2 (Z.to_pos fb)) pr ar p g d stale)
    end
  | _ => "bade2e"
  end.

(* top level: first token selects the sub-driver *)
Definition run (l : list tok) : string :=
  match l with
  | TS "values" :: rest => run_values (toks_ints rest)
  | TS "count" :: rest => run_count_case rest
  | TS "render" :: rest => run_render rest
  | TS "options" :: rest => run_options rest
  | TS "parse" :: rest => run_parse rest
  | TS "e2e" :: rest => run_e2e rest
  | _ => "badcommand"
  end.
