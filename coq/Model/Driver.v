(* Driver: entry point of the extracted model.  A case is a list of tokens
   (integers and strings); the answer is a text block the harness diffs against
   the implementation's canonical text.  Definitions only. *)
From Coq Require Import ZArith QArith List Bool String Ascii.
From Coq Require Import PArith.
From Droop Require Import Model.KernelBase Model.Str Model.Arith Gen.FixedKernels Gen.GuardedKernels
  Model.Prelude Model.State Model.Prims Model.RulesGregory Model.RulesMeek Model.Election.
From Droop Require Export Model.DriverBase.
From Droop Require Import Model.DriverParse.
Import ListNotations.
Open Scope string_scope.
Open Scope Z_scope.

Definition show_resZ (r : res Z) : string :=
  match r with Ok z => "ok " ++ string_of_Z z | Raise e => "exn " ++ exn_name e end.
Definition show_resB (r : res bool) : string :=
  match r with Ok true => "bool 1" | Ok false => "bool 0" | Raise e => "exn " ++ exn_name e end.

Definition mk_operand (kind v : Z) : operand := if kind =? 0 then OInt v else OVal v.
Definition mk_rnd (z : Z) : rnd :=
  if z =? 0 then RDown else if z =? 1 then RUp else if z =? 2 then RNone else ROther.

Fixpoint toks_ints (l : list tok) : list Z :=
  match l with [] => [] | TI z :: t => z :: toks_ints t | TS _ :: t => toks_ints t end.

(* operation codes shared with harness/values_driver.py *)
Definition run_fixed (p d op rn ka a kb b kc c : Z) (rest : list Z) : string :=
  let st := mk_fixed_cls p d in
  let A := mk_operand ka a in let B := mk_operand kb b in let C := mk_operand kc c in
  let r := mk_rnd rn in
  match op with
  | 0 => show_resZ (FixedKernels.init_r st A false)
  | 1 => show_resZ (FixedKernels.dunder_add st a B)
  | 2 => show_resZ (FixedKernels.dunder_sub st a B)
  | 3 => show_resZ (FixedKernels.dunder_neg st a)
  | 4 => show_resZ (FixedKernels.dunder_pos st a)
  | 5 => show_resZ (FixedKernels.dunder_abs st a)
  | 6 => show_resB (FixedKernels.dunder_bool st a)
  | 7 => show_resZ (FixedKernels.dunder_mul st a B)
  | 8 => show_resZ (FixedKernels.dunder_floordiv st a B)
  | 9 => show_resZ (FixedKernels.dunder_truediv st a B)
  | 10 => show_resZ (FixedKernels.mul st A B r)
  | 11 => show_resZ (FixedKernels.div st A B r)
  | 12 => show_resZ (FixedKernels.muldiv st A B C r)
  | 13 => show_resB (FixedKernels.dunder_eq st a B)
  | 14 => show_resB (FixedKernels.dunder_ne st a B)
  | 15 => show_resB (FixedKernels.dunder_lt st a B)
  | 16 => show_resB (FixedKernels.dunder_le st a B)
  | 17 => show_resB (FixedKernels.dunder_gt st a B)
  | 18 => show_resB (FixedKernels.dunder_ge st a B)
  | 20 => show_resZ (FixedKernels.min st rest)
  | 21 => "str " ++ str (Fixed p d) a
  | _ => "badop"
  end.

Definition run_guarded (p g d stale op rn ka a kb b kc c : Z) (rest : list Z) : string :=
  let st := mk_guarded_cls p g d stale in
  let A := mk_operand ka a in let B := mk_operand kb b in let C := mk_operand kc c in
  let r := mk_rnd rn in
  match op with
  | 0 => show_resZ (GuardedKernels.init_r st A false)
  | 1 => show_resZ (GuardedKernels.dunder_add st a B)
  | 2 => show_resZ (GuardedKernels.dunder_sub st a B)
  | 3 => show_resZ (GuardedKernels.dunder_neg st a)
  | 4 => show_resZ (GuardedKernels.dunder_pos st a)
  | 5 => show_resZ (GuardedKernels.dunder_abs st a)
  | 6 => show_resB (GuardedKernels.dunder_bool st a)
  | 7 => show_resZ (GuardedKernels.dunder_mul st a B)
  | 8 => show_resZ (GuardedKernels.dunder_floordiv st a B)
  | 9 => show_resZ (GuardedKernels.dunder_truediv st a B)
  | 10 => show_resZ (GuardedKernels.mul st A B r)
  | 11 => show_resZ (GuardedKernels.div st A B r)
  | 12 => show_resZ (GuardedKernels.muldiv st A B C r)
  | 13 => show_resB (GuardedKernels.dunder_eq st a B)
  | 14 => show_resB (GuardedKernels.dunder_ne st a B)
  | 15 => show_resB (GuardedKernels.dunder_lt st a B)
  | 16 => show_resB (GuardedKernels.dunder_le st a B)
  | 17 => show_resB (GuardedKernels.dunder_gt st a B)
  | 18 => show_resB (GuardedKernels.dunder_ge st a B)
  | 19 => show_resZ (GuardedKernels.dunder_cmp st a B)
  | 20 => show_resZ (GuardedKernels.min st rest)
  | 21 => "str " ++ str (Guarded p g d stale) a
  | 22 => show_resZ (GuardedKernels.dunder_hash st a)
  | _ => "badop"
  end.

Definition mkq (n d : Z) : Q := Qred (Qmake n (Z.to_pos d)).
Definition show_q (q : Q) : string := raw_repr (Rational 0) q.
Definition show_resQ (r : res Q) : string :=
  match r with Ok q => "ok " ++ show_q q | Raise e => "exn " ++ exn_name e end.
Definition showb (b : bool) : string := if b then "bool 1" else "bool 0".

Definition run_rational (dp op rn an ad bn bd cn cd : Z) : string :=
  let R := Rational dp in
  let a := mkq an ad in let b := mkq bn bd in let c := mkq cn cd in
  let r := mk_rnd rn in
  match op with
  | 1 => "ok " ++ show_q (add R a b)
  | 2 => "ok " ++ show_q (sub R a b)
  | 7 => "ok " ++ show_q (mulv R a b)
  | 8 => show_resQ (floordivv R a b)
  | 9 => show_resQ (divv R a b)
  | 10 => "ok " ++ show_q (kmul R a b (rn =? 1))
  | 11 => show_resQ (kdiv R a b (rn =? 1))
  | 12 => show_resQ (kmuldiv R a b c (rn =? 1))
  | 13 => showb (eqv R a b)
  | 14 => showb (nev R a b)
  | 15 => showb (ltv R a b)
  | 16 => showb (lev R a b)
  | 17 => showb (gtv R a b)
  | 18 => showb (gev R a b)
  | 6 => showb (truth R a)
  | 21 => "str " ++ str R a
  | _ => "badop"
  end.

Definition run_values (l : list Z) : string :=
  match l with
  | 0 :: p :: d :: op :: rn :: ka :: a :: kb :: b :: kc :: c :: rest => run_fixed p d op rn ka a kb b kc c rest
  | 1 :: p :: g :: d :: stale :: op :: rn :: ka :: a :: kb :: b :: kc :: c :: rest =>
      run_guarded p g d stale op rn ka a kb b kc c rest
  | 2 :: dp :: op :: rn :: an :: ad :: bn :: bd :: cn :: cd :: _ => run_rational dp op rn an ad bn bd cn cd
  | _ => "badcase"
  end.

(* ------------------------------------------------------------------ count driver *)
(* token stream readers *)
Definition rd_int (l : list tok) : option (Z * list tok) :=
  match l with TI z :: t => Some (z, t) | _ => None end.
Definition rd_str (l : list tok) : option (string * list tok) :=
  match l with TS x :: t => Some (x, t) | _ => None end.
Fixpoint rd_ints (n : nat) (l : list tok) : option (list Z * list tok) :=
  match n with
  | O => Some ([], l)
  | S k => match rd_int l with
           | Some (z, t) => match rd_ints k t with Some (zs, t') => Some (z :: zs, t') | None => None end
           | None => None end
  end.

Definition rd_cand (l : list tok) : option (pcand * list tok) :=
  match l with
  | TI c :: TI o :: TI ti :: TS nm :: TS nk :: TI w :: TI u :: t =>
    Some (mkPcand c o ti nm nk (negb (w =? 0)) (negb (u =? 0)), t)
  | _ => None
  end.
Fixpoint rd_many {X} (rd : list tok -> option (X * list tok)) (n : nat) (l : list tok) : option (list X * list tok) :=
  match n with
  | O => Some ([], l)
  | S k => match rd l with
           | Some (x, t) => match rd_many rd k t with Some (xs, t') => Some (x :: xs, t') | None => None end
           | None => None end
  end.
Definition rd_ballot (l : list tok) : option ((Z * list Z) * list tok) :=
  match l with
  | TI m :: TI n :: t => match rd_ints (Z.to_nat n) t with Some (r, t') => Some ((m, r), t') | None => None end
  | _ => None
  end.
Definition rd_rank (l : list tok) : option (list Z * list tok) :=
  match l with
  | TI n :: t => rd_ints (Z.to_nat n) t
  | _ => None
  end.
Definition rd_eballot (l : list tok) : option ((Z * list (list Z)) * list tok) :=
  match l with
  | TI m :: TI n :: t => match rd_many rd_rank (Z.to_nat n) t with Some (r, t') => Some ((m, r), t') | None => None end
  | _ => None
  end.

Definition tag_name (t : tag) : string :=
  match t with
  | TBegin => "begin" | TCount => "count" | TLog => "log" | TRound => "round" | TTie => "tie" | TElect => "elect"
  | TDefeat => "defeat" | TIterate => "iterate" | TUnpend => "unpend" | TTransfer => "transfer" | TEnd => "end"
  end.
Definition state_name (c : cstate) : string :=
  match c with Hopeful => "hopeful" | Elected => "elected" | Defeated => "defeated" | Withdrawn => "withdrawn" end.
Definition is_wigm (m : meth) : bool := match m with MWigm => true | _ => false end.
Definition code_of (m : meth) (c : cstate) (p : option bool) : string :=
  match c with
  | Withdrawn => "W" | Hopeful => "H" | Defeated => "D"
  | Elected => if is_wigm m && match p with Some true => true | _ => false end then "e" else "E"
  end.
Definition lf : string := String (Ascii.ascii_of_nat 10) EmptyString.

Section Show.
Variable A : arith.
Variable m : meth.
Definition showv (v : T A) : string := raw_repr A v ++ "~" ++ str A v.
Definition showov (o : option (T A)) : string := match o with Some v => showv v | None => "-" end.
Definition show_pend (p : option bool) : string :=
  match p with None => "-" | Some true => "1" | Some false => "0" end.
Definition show_csnap (c : csnap A) : string :=
  match sn_st c with
  | Withdrawn => "C " ++ string_of_Z (sn_cid c) ++ " withdrawn W" ++ lf
  | st => "C " ++ string_of_Z (sn_cid c) ++ " " ++ state_name st ++ " " ++ code_of m st (sn_pend c) ++ " " ++
          showv (sn_vote c) ++ " kf=" ++ showov (sn_kf c) ++ " quo=" ++ showov (sn_quo c) ++
          " p=" ++ show_pend (sn_pend c) ++ lf
  end.
Definition show_ballots (l : list (nat * T A)) : string :=
  "B" ++ fold_right (fun '(i, w) acc => " " ++ string_of_Z (Z.of_nat i) ++ ":" ++ raw_repr A w ++ acc) "" l ++ lf.
Definition show_action (a : action A) : string :=
  "A " ++ tag_name (a_tag a) ++ " " ++ string_of_Z (a_round a) ++ " " ++ a_msg a ++ lf ++
  match a_snap a with
  | None => ""
  | Some sn =>
    "S q=" ++ showv (as_quota sn) ++ " v=" ++ showv (as_votes sn) ++ " nt=" ++ showov (as_nt sn) ++
    " s=" ++ showov (as_surplus sn) ++ lf ++
    fold_right (fun c acc => show_csnap c ++ acc) "" (as_c sn) ++ show_ballots (as_ballots sn)
  end.
Definition show_cids (l : list (cand A)) : string :=
  fold_right (fun c acc => " " ++ string_of_Z (cid c) ++ acc) "" l.
Definition show_outcome (o : outcome A) : string :=
  match o with
  | OutOfFuel => "X OutOfFuel"
  | Crashed s e => fold_left (fun acc a => show_action a ++ acc) (actions s) "" ++ "X " ++ exn_name e
  | Done s ok =>
    fold_left (fun acc a => show_action a ++ acc) (actions s) "" ++
    "R elected=" ++ show_cids (electeds A s) ++ " defeated=" ++ show_cids (defeateds A s) ++
    " withdrawn=" ++ show_cids (withdrawns A s) ++ lf ++
    (if ok then "P ok" else "X AssertionError")
  end.
End Show.

Definition rule_of (z : Z) : rule :=
  match z with
  | 0 => RWigm | 1 => RWigmPrf | 2 => RScotland | 3 => RCfer | 4 => RMpls | 5 => RMeek | 6 => RMeekPrf | _ => RQpq
  end.
Definition meth_of (r : rule) : meth :=
  match r with RMeek | RMeekPrf => MMeek | RQpq => MQpq | _ => MWigm end.

(* count <rulename> rule arith p g d stale omega10 intquota batchzero batch warren fuelbits nseats nballots
         ncand {cid order tie name nick w u}* nb {mult n cid*}* neb {mult nr {n cid*}*}* *)
Definition run_count_case (l : list tok) : string :=
  match l with
  | TS rname :: TI rl :: TI ar :: TI p :: TI g :: TI d :: TI stale :: TI om :: TI iq :: TI bz :: TI bt :: TI wa ::
    TI fb :: TI ns :: TI nb :: TI nc :: rest =>
    match rd_many rd_cand (Z.to_nat nc) rest with
    | None => "badcands"
    | Some (cs, rest1) =>
      match rest1 with
      | TI nbl :: rest2 =>
        match rd_many rd_ballot (Z.to_nat nbl) rest2 with
        | None => "badballots"
        | Some (bs, rest3) =>
          match rest3 with
          | TI nebl :: rest4 =>
            match rd_many rd_eballot (Z.to_nat nebl) rest4 with
            | None => "badeballots"
            | Some (ebs, _) =>
              let r := rule_of rl in
              let cfg := mkConfig rname (meth_of r) ns nb (negb (iq =? 0)) (negb (bz =? 0)) (negb (bt =? 0))
                                  (negb (wa =? 0)) om in
              let pr := mkProfile ns nb cs bs ebs in
              let fuel := Pos.pow 2 (Z.to_pos fb) in
              if ar =? 0 then show_outcome (Fixed p d) (meth_of r) (run_count (Fixed p d) cfg fuel r pr)
              else if ar =? 1 then show_outcome (Guarded p g d stale) (meth_of r) (run_count (Guarded p g d stale) cfg fuel r pr)
              else show_outcome (Rational d) (meth_of r) (run_count (Rational d) cfg fuel r pr)
            end
          | _ => "badeballots"
          end
        end
      | _ => "badballots"
      end
    end
  | _ => "badcount"
  end.

(* top level: first token selects the sub-driver *)
Definition run (l : list tok) : string :=
  match l with
  | TS "values" :: rest => run_values (toks_ints rest)
  | TS "count" :: rest => run_count_case rest
  | TS "parse" :: rest => run_parse rest
  | _ => "badcommand"
  end.
