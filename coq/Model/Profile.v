(* Profile: the BLT ballot-file reader of droop/profile.py (class ElectionProfile):
   __bltBlob (tokenizer), _bltParse / bltParse, __bltOption*, getCid, BallotLine.__init__,
   __validate and the tail of __init__ (default nicknames / tie order).
   Hand-written, executable definitions only.

   Text and names are lists of Unicode code points.  Everything Python can do that
   is not a normal result is an explicit outcome: [res] (Ok | Raise exn) for the
   public entry points, [pres] (POk | PStop | PRaise exn) inside _bltParse, where
   PStop is StopIteration escaping from next(blt); bltParse turns it into
   ElectionProfileError exactly as the code does.  Every loop is structurally
   recursive on the list of tokens still unread (no fuel). *)
From Coq Require Import ZArith String Ascii List Bool.
From Droop Require Import Model.KernelBase Model.Str Gen.UnicodeTables.
Import ListNotations.
Open Scope Z_scope.

Definition ustr := list Z.          (* a Python str: its code points *)

(* ------------------------------------------------------------------ Unicode classes *)
Fixpoint in_ranges (c : Z) (l : list (Z * Z)) : bool :=
  match l with
  | [] => false
  | (lo, hi) :: t => if (lo <=? c) && (c <=? hi) then true else in_ranges c t
  end.
Fixpoint digit_in (c : Z) (l : list (Z * Z * Z)) : option Z :=
  match l with
  | [] => None
  | (lo, hi, v0) :: t => if (lo <=? c) && (c <=? hi) then Some (v0 + (c - lo)) else digit_in c t
  end.
Definition is_space (c : Z) : bool := in_ranges c space_ranges.          (* str.isspace *)
Definition is_linebreak (c : Z) : bool := in_ranges c linebreak_ranges.  (* str.splitlines boundary *)
Definition digit_value (c : Z) : option Z := digit_in c digit_ranges.    (* int() of one decimal digit *)
Definition is_digit (c : Z) : bool := match digit_value c with Some _ => true | None => false end.  (* re \d *)

(* ------------------------------------------------------------------ str methods *)
Fixpoint ustr_eqb (a b : ustr) : bool :=
  match a, b with
  | [], [] => true
  | x :: a', y :: b' => (x =? y) && ustr_eqb a' b'
  | _, _ => false
  end.
Fixpoint starts_with (p s : ustr) : bool :=         (* s.startswith(p) *)
  match p with
  | [] => true
  | x :: p' => match s with [] => false | y :: s' => (x =? y) && starts_with p' s' end
  end.
Definition ends_with (p s : ustr) : bool := starts_with (rev p) (rev s).   (* s.endswith(p) *)
Fixpoint lstrip_c (c : Z) (s : ustr) : ustr :=      (* s.lstrip(chr(c)) *)
  match s with [] => [] | x :: t => if x =? c then lstrip_c c t else s end.
Definition rstrip_c (c : Z) (s : ustr) : ustr := rev (lstrip_c c (rev s)).
Definition strip_c (c : Z) (s : ustr) : ustr := rstrip_c c (lstrip_c c s).
Fixpoint split_on_aux (c : Z) (s cur : ustr) : list ustr :=   (* cur is reversed *)
  match s with
  | [] => [rev cur]
  | x :: t => if x =? c then rev cur :: split_on_aux c t [] else split_on_aux c t (x :: cur)
  end.
Definition split_on (c : Z) (s : ustr) : list ustr := split_on_aux c s [].   (* s.split(chr(c)) *)

Definition flush (cur : ustr) : list ustr := match cur with [] => [] | _ => [rev cur] end.
(* line.split(): maximal runs of non-whitespace *)
Fixpoint split_ws_aux (s cur : ustr) : list ustr :=
  match s with
  | [] => flush cur
  | c :: t => if is_space c then flush cur ++ split_ws_aux t [] else split_ws_aux t (c :: cur)
  end.
Definition split_ws (s : ustr) : list ustr := split_ws_aux s [].
(* blob.splitlines(): CR LF is one boundary; no empty last line *)
Fixpoint splitlines_aux (s cur : ustr) : list ustr :=
  match s with
  | [] => flush cur
  | c :: t =>
    if is_linebreak c then
      rev cur :: match t with
                 | d :: t' => if (c =? 13) && (d =? 10) then splitlines_aux t' [] else splitlines_aux t []
                 | [] => []
                 end
    else splitlines_aux t (c :: cur)
  end.
Definition splitlines (s : ustr) : list ustr := splitlines_aux s [].

(* character constants *)
Definition cQUOTE := 34. Definition cHASH := 35. Definition cLPAR := 40. Definition cRPAR := 41.
Definition cSTAR := 42.  Definition cMINUS := 45. Definition cSLASH := 47. Definition cZERO := 48.
Definition cEQ := 61.    Definition cLBRK := 91.  Definition cRBRK := 93.  Definition cSP := 32.

(* ------------------------------------------------------------------ numbers *)
(* re.match(r'\d+$', tok): tokens contain no newline, so $ is the end *)
Definition all_digits (s : ustr) : bool := match s with [] => false | _ => forallb is_digit s end.
(* re.match(r'-?\d+$', tok) *)
Definition is_sdigits (s : ustr) : bool :=
  match s with c :: r => if c =? cMINUS then all_digits r else all_digits s | [] => false end.
Definition digit_or0 (c : Z) : Z := match digit_value c with Some v => v | None => 0 end.
Definition int_of_digits (s : ustr) : Z := fold_left (fun acc c => acc * 10 + digit_or0 c) s 0.
(* int(tok) for a token already matched by -?\d+$: ValueError beyond sys.get_int_max_str_digits()
   digits (sign not counted) *)
Definition py_int (s : ustr) : res Z :=
  let '(neg, ds) := match s with c :: r => if c =? cMINUS then (true, r) else (false, s) | [] => (false, s) end in
  if int_max_str_digits <? Z.of_nat (List.length ds) then Raise ValueError
  else Ok (if neg then - int_of_digits ds else int_of_digits ds).
(* profile._int: ValueError -> ElectionProfileError *)
Definition p_int (s : ustr) : res Z :=
  match py_int s with
  | Raise ValueError => Raise ElectionProfileError
  | r => r
  end.

(* ------------------------------------------------------------------ sets and dicts *)
Fixpoint zmem (c : Z) (l : list Z) : bool :=
  match l with [] => false | x :: t => if x =? c then true else zmem c t end.
(* set of ints, kept ascending (canonical) *)
Fixpoint zset_add (c : Z) (l : list Z) : list Z :=
  match l with
  | [] => [c]
  | x :: t => if c <? x then c :: l else if c =? x then l else x :: zset_add c t
  end.
(* dict with int keys, kept ascending by key; assignment replaces *)
Fixpoint zmap_set {V} (k : Z) (v : V) (l : list (Z * V)) : list (Z * V) :=
  match l with
  | [] => [(k, v)]
  | (k', v') :: t => if k <? k' then (k, v) :: l else if k =? k' then (k, v) :: t else (k', v') :: zmap_set k v t
  end.
Fixpoint zmap_get {V} (k : Z) (l : list (Z * V)) : option V :=
  match l with [] => None | (k', v) :: t => if k' =? k then Some v else zmap_get k t end.
(* dict / set with str keys *)
Fixpoint smap_get (k : ustr) (l : list (ustr * Z)) : option Z :=
  match l with [] => None | (k', v) :: t => if ustr_eqb k' k then Some v else smap_get k t end.
Fixpoint smem (k : ustr) (l : list ustr) : bool :=
  match l with [] => false | x :: t => if ustr_eqb x k then true else smem k t end.
Fixpoint has_dup (l : list Z) : bool :=
  match l with [] => false | x :: t => if zmem x t then true else has_dup t end.

(* ------------------------------------------------------------------ __bltBlob *)
(* one pass of the loop body for one token: what happens to it, and the new inComment, inQuote *)
Inductive tk_act := TYield | TSkip | TBreak.
Definition tok_step (t : ustr) (ic : Z) (iq : bool) : tk_act * Z * bool :=
  let iq1 := if (ic =? 0) && starts_with [cQUOTE] t then true else iq in
  if iq1 && ends_with [cQUOTE] t then (TYield, ic, false)
  else
    let ic1 := if negb iq1 && starts_with [cSLASH; cSTAR] t then ic + 1 else ic in
    if negb (ic1 =? 0) then (TSkip, (if ends_with [cSTAR; cSLASH] t then ic1 - 1 else ic1), iq1)
    else if negb iq1 && starts_with [cHASH] t then (TBreak, ic1, iq1)      (* break: rest of line *)
    else (TYield, ic1, iq1).
(* one line: tokens of the line, inComment, inQuote -> tokens yielded, inComment, inQuote *)
Fixpoint tok_line (toks : list ustr) (ic : Z) (iq : bool) : list ustr * Z * bool :=
  match toks with
  | [] => ([], ic, iq)
  | t :: rest =>
    match tok_step t ic iq with
    | (TYield, ic', iq') => let '(out, ic'', iq'') := tok_line rest ic' iq' in (t :: out, ic'', iq'')
    | (TSkip, ic', iq') => tok_line rest ic' iq'
    | (TBreak, ic', iq') => ([], ic', iq')
    end
  end.
Fixpoint tok_lines (lines : list ustr) (ic : Z) (iq : bool) : list ustr :=
  match lines with
  | [] => []
  | l :: ls => let '(out, ic', iq') := tok_line (split_ws l) ic iq in out ++ tok_lines ls ic' iq'
  end.
(* the generator is lazy but pure: the tokens it would yield, in order *)
Definition tokenize (text : ustr) : list ustr := tok_lines (splitlines text) 0 false.

(* ------------------------------------------------------------------ parser state *)
Inductive pres (A : Type) := POk (a : A) | PStop | PRaise (e : exn).
Arguments POk {A} a.
Arguments PStop {A}.
Arguments PRaise {A} e.
Definition pbind {A B} (r : pres A) (f : A -> pres B) : pres B :=
  match r with POk a => f a | PStop => PStop | PRaise e => PRaise e end.
Definition lift {A} (r : res A) : pres A := match r with Ok a => POk a | Raise e => PRaise e end.
Definition EPE {A} : pres A := PRaise ElectionProfileError.

Record pst := mkPst {
  s_nCand : Z; s_nSeats : Z;
  s_withdrawn : list Z; s_undeclared : list Z;
  s_tieOrder : list (Z * Z);             (* cid -> order *)
  s_nickName : list (Z * ustr);          (* cid -> nick *)
  s_nickCid : list (ustr * Z);           (* nick -> cid *)
  s_options : list ustr;
  s_nBallots : Z;
  s_lines : list (Z * list Z);           (* ballotLines: multiplier, ranking; file order *)
  s_linesEq : list (Z * list (list Z));  (* ballotLinesEqual *)
  s_ballotIDs : list ustr
}.
Definition init_pst (nc ns : Z) : pst := mkPst nc ns [] [] [] [] [] [] 0 [] [] [].
Definition set_withdrawn (st : pst) (w : list Z) : pst :=
  mkPst (s_nCand st) (s_nSeats st) w (s_undeclared st) (s_tieOrder st) (s_nickName st) (s_nickCid st)
        (s_options st) (s_nBallots st) (s_lines st) (s_linesEq st) (s_ballotIDs st).
Definition set_undeclared (st : pst) (u : list Z) : pst :=
  mkPst (s_nCand st) (s_nSeats st) (s_withdrawn st) u (s_tieOrder st) (s_nickName st) (s_nickCid st)
        (s_options st) (s_nBallots st) (s_lines st) (s_linesEq st) (s_ballotIDs st).
Definition set_tie (st : pst) (t : list (Z * Z)) : pst :=
  mkPst (s_nCand st) (s_nSeats st) (s_withdrawn st) (s_undeclared st) t (s_nickName st) (s_nickCid st)
        (s_options st) (s_nBallots st) (s_lines st) (s_linesEq st) (s_ballotIDs st).
Definition set_nick (st : pst) (nn : list (Z * ustr)) (nc : list (ustr * Z)) : pst :=
  mkPst (s_nCand st) (s_nSeats st) (s_withdrawn st) (s_undeclared st) (s_tieOrder st) nn nc
        (s_options st) (s_nBallots st) (s_lines st) (s_linesEq st) (s_ballotIDs st).
Definition set_options (st : pst) (o : list ustr) : pst :=
  mkPst (s_nCand st) (s_nSeats st) (s_withdrawn st) (s_undeclared st) (s_tieOrder st) (s_nickName st) (s_nickCid st)
        o (s_nBallots st) (s_lines st) (s_linesEq st) (s_ballotIDs st).
Definition add_line (st : pst) (m : Z) (r : list Z) : pst :=
  mkPst (s_nCand st) (s_nSeats st) (s_withdrawn st) (s_undeclared st) (s_tieOrder st) (s_nickName st) (s_nickCid st)
        (s_options st) (s_nBallots st + m) (s_lines st ++ [(m, r)]) (s_linesEq st) (s_ballotIDs st).
Definition add_lineEq (st : pst) (m : Z) (r : list (list Z)) : pst :=
  mkPst (s_nCand st) (s_nSeats st) (s_withdrawn st) (s_undeclared st) (s_tieOrder st) (s_nickName st) (s_nickCid st)
        (s_options st) (s_nBallots st + m) (s_lines st) (s_linesEq st ++ [(m, r)]) (s_ballotIDs st).
Definition add_ballotID (st : pst) (b : ustr) : pst :=
  mkPst (s_nCand st) (s_nSeats st) (s_withdrawn st) (s_undeclared st) (s_tieOrder st) (s_nickName st) (s_nickCid st)
        (s_options st) (s_nBallots st) (s_lines st) (s_linesEq st) (b :: s_ballotIDs st).

(* ------------------------------------------------------------------ getCid *)
Definition getCid (st : pst) (nick : ustr) : res Z :=
  if all_digits nick then
    n <- p_int nick ;;
    if (0 <? n) && (n <=? s_nCand st) then Ok n else Raise ElectionProfileError
  else
    match s_nickCid st with
    | [] => Raise ElectionProfileError                     (* `self._nickCid and ...` *)
    | _ => match smap_get nick (s_nickCid st) with
           | Some c => Ok c
           | None => Raise ElectionProfileError
           end
    end.

Fixpoint map_res {A B} (f : A -> res B) (l : list A) : res (list B) :=
  match l with
  | [] => Ok []
  | x :: t => y <- f x ;; ys <- map_res f t ;; Ok (y :: ys)
  end.

(* ------------------------------------------------------------------ options *)
(* __bltOptionTie: tieOrder = {}; o = position (from 1) *)
Fixpoint tie_loop (st : pst) (l : list ustr) (o : Z) (acc : list (Z * Z)) : res (list (Z * Z)) :=
  match l with
  | [] => Ok acc
  | t :: rest => cid <- getCid st t ;; tie_loop st rest (o + 1) (zmap_set cid (o + 1) acc)
  end.
Definition option_tie (st : pst) (l : list ustr) : res pst :=
  acc <- tie_loop st l 0 [] ;;
  if Z.of_nat (List.length acc) =? s_nCand st then Ok (set_tie st acc) else Raise ElectionProfileError.

(* __bltOptionNick *)
Fixpoint nick_loop (l : list ustr) (cid : Z) (nn : list (Z * ustr)) (nc : list (ustr * Z))
  : res (list (Z * ustr) * list (ustr * Z)) :=
  match l with
  | [] => Ok (nn, nc)
  | nick :: rest =>
    match smap_get nick nc with
    | Some _ => Raise ElectionProfileError
    | None => nick_loop rest (cid + 1) (nn ++ [(cid + 1, nick)]) ((nick, cid + 1) :: nc)
    end
  end.
Definition option_nick (st : pst) (l : list ustr) : res pst :=
  if negb (Z.of_nat (List.length l) =? s_nCand st) then Raise ElectionProfileError
  else '(nn, nc) <- nick_loop l 0 [] [] ;; Ok (set_nick st nn nc).

(* __bltOptionWithdrawn / __bltOptionUndeclared: the set grows as the loop runs *)
Fixpoint cidset_loop (st : pst) (l : list ustr) (acc : list Z) : res (list Z) :=
  match l with
  | [] => Ok acc
  | t :: rest => cid <- getCid st t ;;
                 if zmem cid acc then Raise ElectionProfileError else cidset_loop st rest (zset_add cid acc)
  end.

Definition s_tie := [116; 105; 101].                                     (* "tie" *)
Definition s_nick := [110; 105; 99; 107].                                (* "nick" *)
Definition s_droop := [100; 114; 111; 111; 112].                         (* "droop" *)
Definition s_withdrawn_kw := [119; 105; 116; 104; 100; 114; 97; 119; 110].      (* "withdrawn" *)
Definition s_undeclared_kw := [117; 110; 100; 101; 99; 108; 97; 114; 101; 100]. (* "undeclared" *)

Definition apply_option (st : pst) (name : ustr) (l : list ustr) : res pst :=
  if ustr_eqb name s_tie then option_tie st l
  else if ustr_eqb name s_nick then option_nick st l
  else if ustr_eqb name s_droop then Ok (set_options st (s_options st ++ l))
  else if ustr_eqb name s_withdrawn_kw then w <- cidset_loop st l (s_withdrawn st) ;; Ok (set_withdrawn st w)
  else if ustr_eqb name s_undeclared_kw then u <- cidset_loop st l (s_undeclared st) ;; Ok (set_undeclared st u)
  else Raise ElectionProfileError.

(* The option / withdrawn loop of _bltParse, with __bltOption's token loop inlined as a mode.
   Returns the state and the unread tokens *starting with* the token that ended the loop. *)
Inductive omode := ONone | OCollect (name : ustr) (acc : list ustr).
Fixpoint opts (toks : list ustr) (st : pst) (m : omode) : pres (pst * list ustr) :=
  match toks with
  | [] => PStop                                                            (* next(blt) *)
  | tok :: rest =>
    match m with
    | OCollect name acc =>
      let acc' := if ustr_eqb tok [cRBRK] then acc else acc ++ [rstrip_c cRBRK tok] in
      if ends_with [cRBRK] tok then
        pbind (lift (apply_option st name acc')) (fun st' => opts rest st' ONone)
      else opts rest st (OCollect name acc')
    | ONone =>
      if starts_with [cLBRK] tok then
        let name := lstrip_c cLBRK tok in
        if ends_with [cRBRK] name then
          pbind (lift (apply_option st (rstrip_c cRBRK name) [])) (fun st' => opts rest st' ONone)
        else opts rest st (OCollect name [])
      else if starts_with [cLPAR] tok then POk (st, toks)
      else if is_sdigits tok then
        pbind (lift (p_int tok)) (fun v =>
          let wd := - v in
          if wd <=? 0 then POk (st, toks)
          else if s_nCand st <? wd then EPE
          else if zmem wd (s_withdrawn st) then EPE
          else opts rest (set_withdrawn st (zset_add wd (s_withdrawn st))) ONone)
      else EPE
    end
  end.

(* ------------------------------------------------------------------ BallotLine.__init__ *)
Definition array_max (nCand : Z) : Z :=       (* typecode 'B' / 'H' / 'L' (8-byte unsigned long) *)
  if nCand <? 256 then 255 else if nCand <? 65536 then 65535 else 18446744073709551615.
Definition ballot_line (st : pst) (m : Z) (ranking : list (list Z)) : res pst :=
  let ranks1 := map (filter (fun c => negb (zmem c (s_withdrawn st)))) ranking in
  let equal_rank := existsb (fun r => (1 <? Z.of_nat (List.length r))) ranks1 in
  let ranks2 := filter (fun r => match r with [] => false | _ => true end) ranks1 in
  match ranks2 with
  | [] => Ok st                                           (* ranking None: line dropped *)
  | _ =>
    if equal_rank then Ok (add_lineEq st m ranks2)
    else
      let flat := map (fun r => hd 0 r) ranks2 in
      if existsb (fun c => (c <? 0) || (array_max (s_nCand st) <? c)) flat then Raise OverflowError   (* array.array *)
      else Ok (add_line st m flat)
  end.

(* ------------------------------------------------------------------ ballots *)
Definition finish_bid (st : pst) (bid : ustr) : res pst :=
  let b := strip_c cSP (rstrip_c cRPAR (lstrip_c cLPAR bid)) in
  if smem b (s_ballotIDs st) then Raise ElectionProfileError else Ok (add_ballotID st b).

Inductive bmode := BHead | BBid (bid : ustr) | BRank (mult : Z) (ranking : list (list Z)).
(* first token of [toks] is the current `tok`; returns the tokens after the terminating 0 *)
Fixpoint ballots (toks : list ustr) (st : pst) (m : bmode) : pres (pst * list ustr) :=
  match toks with
  | [] => PStop
  | tok :: rest =>
    match m with
    | BHead =>
      if starts_with [cLPAR] tok then
        if ends_with [cRPAR] tok then pbind (lift (finish_bid st tok)) (fun st' => ballots rest st' (BRank 1 []))
        else ballots rest st (BBid tok)
      else if all_digits tok then
        pbind (lift (p_int tok)) (fun mult =>
          if mult =? 0 then POk (st, rest) else ballots rest st (BRank mult []))
      else EPE
    | BBid bid =>
      let bid' := bid ++ cSP :: tok in
      if ends_with [cRPAR] bid' then pbind (lift (finish_bid st bid')) (fun st' => ballots rest st' (BRank 1 []))
      else ballots rest st (BBid bid')
    | BRank mult ranking =>
      if ustr_eqb tok [cZERO] then
        pbind (lift (match ranking with [] => Ok st | _ => ballot_line st mult ranking end))
              (fun st' => ballots rest st' BHead)
      else
        pbind (lift (map_res (getCid st) (split_on cEQ tok)))
              (fun cids => ballots rest st (BRank mult (ranking ++ [cids])))
    end
  end.

(* ------------------------------------------------------------------ names, title, source, comment *)
(* candidate names: cid = next candidate to read, cur = the partly read name (token loop inlined) *)
Fixpoint names (toks : list ustr) (nCand : Z) (cid : Z) (cur : option ustr) (acc : list (Z * ustr))
  : pres (list (Z * ustr) * list ustr) :=
  match cur with
  | None =>
    if nCand <? cid then POk (acc, toks)
    else match toks with
         | [] => EPE                                      (* StopIteration caught at the name *)
         | t :: rest =>
           if negb (starts_with [cQUOTE] t) then EPE
           else if ends_with [cQUOTE] t then names rest nCand (cid + 1) None (acc ++ [(cid, strip_c cQUOTE t)])
           else names rest nCand cid (Some t) acc
         end
  | Some name =>
    match toks with
    | [] => PStop                                         (* next(blt) inside the while *)
    | t :: rest =>
      let name' := name ++ cSP :: t in
      if ends_with [cQUOTE] name' then names rest nCand (cid + 1) None (acc ++ [(cid, strip_c cQUOTE name')])
      else names rest nCand cid (Some name') acc
    end
  end.

(* while not s.endswith(QUOTE): s += ' ' + next(blt)      None = StopIteration *)
Fixpoint read_quoted (toks : list ustr) (s : ustr) : option (ustr * list ustr) :=
  if ends_with [cQUOTE] s then Some (s, toks)
  else match toks with
       | [] => None
       | t :: rest => read_quoted rest (s ++ cSP :: t)
       end.
Definition unquote (s : ustr) : ustr := strip_c cSP (strip_c cQUOTE s).

(* optional trailing string (source, comment): None = absent (return from _bltParse) *)
Definition opt_string (toks : list ustr) : pres (option (ustr * list ustr)) :=
  match toks with
  | [] => POk None
  | tok :: rest =>
    if negb (starts_with [cQUOTE] tok) then POk None
    else match read_quoted rest tok with
         | None => EPE
         | Some (s, rest') => POk (Some (unquote s, rest'))
         end
  end.

(* ------------------------------------------------------------------ the profile *)
Record profile := mkProfileP {
  p_nCand : Z; p_nSeats : Z;
  p_title : ustr; p_source : option ustr; p_comment : option ustr;
  p_nBallots : Z;
  p_eligible : list Z; p_withdrawn : list Z; p_undeclared : list Z;
  p_candName : list (Z * ustr); p_candOrder : list (Z * Z);
  p_lines : list (Z * list Z); p_linesEq : list (Z * list (list Z));
  p_tieOrder : list (Z * Z); p_nickName : list (Z * ustr);
  p_options : list ustr
}.

(* ------------------------------------------------------------------ _bltParse *)
Record parsed := mkParsed {
  r_st : pst; r_names : list (Z * ustr); r_title : ustr; r_source : option ustr; r_comment : option ustr }.

Definition parse_tail (st : pst) (toks : list ustr) : pres parsed :=
  if (match s_ballotIDs st with [] => false | _ => true end) &&
     negb (Nat.eqb (List.length (s_ballotIDs st)) (List.length (s_lines st))) then EPE
  else
  pbind (names toks (s_nCand st) 1 None []) (fun '(nm, toks1) =>
  match toks1 with
  | [] => PStop
  | tok :: rest =>
    if negb (starts_with [cQUOTE] tok) then EPE
    else match read_quoted rest tok with
         | None => EPE
         | Some (s, toks2) =>
           let title := unquote s in
           pbind (opt_string toks2) (fun so =>
           match so with
           | None => POk (mkParsed st nm title None None)
           | Some (src, toks3) =>
             pbind (opt_string toks3) (fun co =>
             match co with
             | None => POk (mkParsed st nm title (Some src) None)
             | Some (com, _) => POk (mkParsed st nm title (Some src) (Some com))
             end)
           end)
         end
  end).

Definition blt_parse_raw (toks : list ustr) : pres parsed :=
  match toks with
  | [] => PStop
  | t1 :: r1 =>
    if negb (all_digits t1) then EPE else
    pbind (lift (p_int t1)) (fun nc =>
    match r1 with
    | [] => PStop
    | t2 :: r2 =>
      if negb (all_digits t2) then EPE else
      pbind (lift (p_int t2)) (fun ns =>
      pbind (opts r2 (init_pst nc ns) ONone) (fun '(st1, toks1) =>
      pbind (ballots toks1 st1 BHead) (fun '(st2, toks2) =>
      parse_tail st2 toks2)))
    end)
  end.

(* bltParse: StopIteration -> ElectionProfileError *)
Definition blt_parse (toks : list ustr) : res parsed :=
  match blt_parse_raw toks with
  | POk r => Ok r
  | PStop => Raise ElectionProfileError
  | PRaise e => Raise e
  end.

(* ------------------------------------------------------------------ __validate and the tail of __init__ *)
Definition validate (st : pst) (eligible : list Z) : res unit :=
  let ne := Z.of_nat (List.length eligible) in
  if (s_nSeats st =? 0) || (ne <? s_nSeats st) then Raise ElectionProfileError
  else if s_nBallots st <? ne then Raise ElectionProfileError
  else if existsb (fun bl => has_dup (snd bl)) (s_lines st) then Raise ElectionProfileError
  else if existsb (fun bl => has_dup (concat (snd bl))) (s_linesEq st) then Raise ElectionProfileError
  else Ok tt.

Definition ustr_of_string (s : string) : ustr := map (fun a => Z.of_N (N_of_ascii a)) (list_ascii_of_string s).
Definition ustr_of_Z (z : Z) : ustr := ustr_of_string (string_of_Z z).       (* str(cid) *)
(* range(1, n+1) *)
Definition cids_upto (n : Z) : list Z := map (fun i => Z.of_nat i) (seq 1 (Z.to_nat n)).

Definition finish (r : parsed) : res profile :=
  let st := r_st r in
  let eligible := filter (fun c => negb (zmem c (s_withdrawn st))) (map fst (r_names r)) in
  _ <- validate st eligible ;;
  let nick := match s_nickCid st with
              | [] => map (fun c => (c, ustr_of_Z c)) (cids_upto (s_nCand st))
              | _ => s_nickName st end in
  let tie := match s_tieOrder st with
             | [] => map (fun c => (c, c)) (cids_upto (s_nCand st))
             | _ => s_tieOrder st end in
  Ok (mkProfileP (s_nCand st) (s_nSeats st) (r_title r) (r_source r) (r_comment r) (s_nBallots st)
                 eligible (s_withdrawn st) (s_undeclared st)
                 (r_names r) (map (fun nm => (fst nm, fst nm)) (r_names r))
                 (s_lines st) (s_linesEq st) tie nick (s_options st)).

Definition parse_tokens (toks : list ustr) : res profile := r <- blt_parse toks ;; finish r.

(* ElectionProfile(data=text) *)
Definition parse (text : ustr) : res profile :=
  match text with
  | [] => Raise ElectionProfileError                      (* `if not data` *)
  | _ => parse_tokens (tokenize text)
  end.

(* ElectionProfile(path=...) after the utf-8-sig codec: one leading U+FEFF is dropped *)
Definition strip_bom (text : ustr) : ustr :=
  match text with c :: t => if c =? 65279 then t else text | [] => [] end.
Definition parse_file (text : ustr) : res profile := parse (strip_bom text).

(* ------------------------------------------------------------------ what Election.__init__ reads from a profile *)
(* for cid in sorted(eligible | withdrawn): Candidate(..., candidateOrder[cid], tieOrder[cid],
   candidateName[cid], nickName[cid], ...) -- four dict lookups, each a possible KeyError.  (The rest of
   the constructor -- options, rule, arithmetic, Ballot objects -- does not depend on the profile when
   the profile embeds no options.) *)
Definition ctor_lookup (p : profile) (cid : Z) : res unit :=
  match zmap_get cid (p_candOrder p), zmap_get cid (p_tieOrder p),
        zmap_get cid (p_candName p), zmap_get cid (p_nickName p) with
  | Some _, Some _, Some _, Some _ => Ok tt
  | _, _, _, _ => Raise KeyError
  end.
Fixpoint ctor_lookups (p : profile) (cids : list Z) : res unit :=
  match cids with
  | [] => Ok tt
  | c :: r => _ <- ctor_lookup p c ;; ctor_lookups p r
  end.
Definition election_init_lookups (p : profile) : res unit :=
  ctor_lookups p (fold_left (fun acc c => zset_add c acc) (p_withdrawn p) (p_eligible p)).
