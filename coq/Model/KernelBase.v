(* KernelBase: the vocabulary the generated arithmetic kernels are written in.
   Hand-written, definitions only.  Everything Python can do that is not a
   normal result is an explicit [Raise]. *)
From Coq Require Import ZArith List Bool String.
Import ListNotations.
Open Scope Z_scope.

Inductive exn :=
| ZeroDivisionError | ValueError | IndexError | TypeError | AttributeError
| AssertionError | KeyError | UnboundLocalError | OverflowError | NotImplementedErr
| UsageError | ElectionError | ElectionProfileError | ArithmeticValuesError.

Inductive res (A : Type) := Ok (a : A) | Raise (e : exn).
Arguments Ok {A} a.
Arguments Raise {A} e.

Definition bind {A B} (r : res A) (f : A -> res B) : res B :=
  match r with Ok a => f a | Raise e => Raise e end.
Notation "x <- r ;; k" := (bind r (fun x => k)) (at level 61, r at next level, right associativity).
Notation "' pat <- r ;; k" := (bind r (fun x => let pat := x in k))
  (at level 61, pat pattern, r at next level, right associativity).

(* an operand of a value-class operator: a Python int or a value object (raw _value) *)
Inductive operand := OInt (n : Z) | OVal (raw : Z).
Definition operand_raw (o : operand) : Z := match o with OInt n => n | OVal r => r end.

Definition operand_value (o : operand) : res Z :=
  match o with OVal r => Ok r | OInt _ => Raise AttributeError end.
Definition res_true (r : res bool) : bool := match r with Ok true => true | _ => false end.

(* the [round] keyword argument *)
Inductive rnd := RUp | RDown | RNone | ROther.
Definition rnd_eqb (a b : rnd) : bool :=
  match a, b with RUp, RUp | RDown, RDown | RNone, RNone | ROther, ROther => true | _, _ => false end.
Definition rnd_in (a : rnd) (l : list rnd) : bool := existsb (rnd_eqb a) l.

(* Python integer operators.  Z.div / Z.modulo are floor division and the
   matching remainder (sign of the divisor), as Python's // and %. *)
Definition pydiv (a b : Z) : res Z := if b =? 0 then Raise ZeroDivisionError else Ok (a / b).
Definition pymod (a b : Z) : res Z := if b =? 0 then Raise ZeroDivisionError else Ok (a mod b).
Definition pydivmod (a b : Z) : res (Z * Z) :=
  if b =? 0 then Raise ZeroDivisionError else Ok (a / b, a mod b).
Definition truthy (z : Z) : bool := negb (z =? 0).

(* builtin min()/max(): keep the first minimal / maximal element under < / > *)
Definition py_min_by {A} (lt : A -> A -> bool) (l : list A) : res A :=
  match l with
  | [] => Raise ValueError
  | x :: t => Ok (fold_left (fun m y => if lt y m then y else m) t x)
  end.
Definition py_max_by {A} (gt : A -> A -> bool) (l : list A) : res A :=
  match l with
  | [] => Raise ValueError
  | x :: t => Ok (fold_left (fun m y => if gt y m then y else m) t x)
  end.

(* class-level state of droop.values.fixed.Fixed after initialize() *)
Record fixed_cls := {
  f_precision : Z; f_display : Z;
  f_scale : Z;       (* __scale   = 10^precision *)
  f_scaled : Z;      (* __scaled  = 10^display *)
  f_scaledd : Z;     (* __scaledd = 10^(precision-display) *)
  f_scaledr : Z      (* __scaledr = __scaledd // 2 *)
}.

(* class-level state of droop.values.guarded.Guarded after initialize() *)
Record guarded_cls := {
  g_precision : Z; g_guard : Z; g_display : Z;
  g_scale : Z;       (* 10^(precision+guard) *)
  g_scalep : Z; g_scaleg : Z;
  g_scaled : Z;      (* 10^display *)
  g_scaledd : Z;     (* 10^(guard+precision-display) *)
  g_scaledr : Z;
  g_scaledg : Z;     (* 10^(display-precision); assigned only when display > precision (else stale) *)
  g_geps : Z
}.

(* class-level state of Rational *)
Record rational_cls := { r_dp : Z; r_dps : Z }.

(* result of "%d.%0Nd" % (a, b) and "%d.%0Pd_%0Gd" % (a, b, c): the integer
   arguments handed to the % operator; Str.v renders them. *)
Inductive fmt_args := Fmt2 (a b : Z) | Fmt3 (a b c : Z) | FmtInt (a : Z) | FmtNeg (f : fmt_args).
