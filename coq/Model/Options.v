(* Options: the option store of droop/options.py (class Options), each rule's options()
   method (droop/rules/*.py) and values.ArithmeticClass's option handling, statement by
   statement.  Definitions only.

   Python option values are heterogeneous (None, bool, int, str); [oval] keeps the type, and
   [oval_eqb] is Python's == on them (True == 1, False == 0, a str never equals a number).
   Every layer is a dict: an association list with unique keys, insertion ordered;
   [dset] replaces in place or appends, [dsetdefault] keeps the first value.

   A method that mutates the Options object and may raise is a function
   store -> res A * store: the store that comes back is the object *after* the call, also when
   the call raised (setopt records the default / force / allowed entries before it raises). *)
From Coq Require Import ZArith List Bool String Ascii.
From Droop Require Import Model.KernelBase Model.Str.
Import ListNotations.
Open Scope string_scope.
Open Scope Z_scope.

(* ------------------------------------------------------------------ option values *)
Inductive oval := VNone | VBool (b : bool) | VInt (z : Z) | VStr (s : string).

Definition oval_num (v : oval) : option Z :=
  match v with VBool b => Some (if b then 1 else 0) | VInt z => Some z | _ => None end.

(* Python's == between None / bool / int / str *)
Definition oval_eqb (a b : oval) : bool :=
  match a, b with
  | VNone, VNone => true
  | VStr s, VStr t => String.eqb s t
  | _, _ => match oval_num a, oval_num b with Some x, Some y => x =? y | _, _ => false end
  end.

Definition is_none (v : oval) : bool := match v with VNone => true | _ => false end.

(* str(v) *)
Definition py_str (v : oval) : string :=
  match v with
  | VNone => "None" | VBool true => "True" | VBool false => "False"
  | VInt z => string_of_Z z | VStr s => s
  end.

(* ------------------------------------------------------------------ strings *)
Definition is_digit (c : ascii) : bool := match digit_of c with Some _ => true | None => false end.
Definition nl_char : ascii := ascii_of_nat 10.

(* value of a string of ASCII digits *)
Fixpoint digits_value (s : string) (acc : Z) : Z :=
  match s with
  | EmptyString => acc
  | String c t => match digit_of c with Some d => digits_value t (acc * 10 + d) | None => acc end
  end.

(* re.match(r'\d+$', s) for ASCII text: one or more digits, then the end of the string or one
   final newline ('$' also matches just before a trailing newline).  Non-ASCII Unicode digits,
   which \d and int() accept too, are outside the modelled envelope. *)
Fixpoint digits_then_end (s : string) (seen : bool) : bool :=
  match s with
  | EmptyString => seen
  | String c t =>
      if is_digit c then digits_then_end t true
      else seen && Ascii.eqb c nl_char && match t with EmptyString => true | _ => false end
  end.
Definition matches_digits (s : string) : bool := digits_then_end s false.

(* Options.normalize on one value: a str matching \d+$ becomes int(str) *)
Definition normalize_val (v : oval) : oval :=
  match v with
  | VStr s => if matches_digits s then VInt (digits_value s 0) else v
  | _ => v
  end.

(* int(str): surrounding whitespace, optional sign, digits with single underscores between them *)
Definition is_space (c : ascii) : bool :=
  let n := nat_of_ascii c in
  (Nat.leb 9 n && Nat.leb n 13) || (Nat.leb 28 n && Nat.leb n 32).
Fixpoint lstrip (s : string) : string :=
  match s with String c t => if is_space c then lstrip t else s | EmptyString => s end.
Fixpoint rstrip (s : string) : string :=
  match s with
  | EmptyString => EmptyString
  | String c t => match rstrip t with
                  | EmptyString => if is_space c then EmptyString else String c EmptyString
                  | t' => String c t'
                  end
  end.
Fixpoint int_body (s : string) (acc : Z) (prev_digit : bool) : option Z :=
  match s with
  | EmptyString => if prev_digit then Some acc else None
  | String c t =>
      match digit_of c with
      | Some d => int_body t (acc * 10 + d) true
      | None => if Ascii.eqb c "_"%char && prev_digit then int_body t acc false else None
      end
  end.
Definition py_int_str (s0 : string) : option Z :=
  let s := rstrip (lstrip s0) in
  match s with
  | String c t =>
      if Ascii.eqb c "-"%char then option_map Z.opp (int_body t 0 false)
      else if Ascii.eqb c "+"%char then int_body t 0 false
      else int_body s 0 false
  | EmptyString => None
  end.

(* int(v) *)
Definition py_int (v : oval) : res Z :=
  match v with
  | VNone => Raise TypeError
  | VBool b => Ok (if b then 1 else 0)
  | VInt z => Ok z
  | VStr s => match py_int_str s with Some z => Ok z | None => Raise ValueError end
  end.

(* v // k and v * 2 // 3 for an option value v (rules compute defaults from `precision`) *)
Definition py_floordiv_int (v : oval) (k : Z) : res oval :=
  match oval_num v with Some z => Ok (VInt (z / k)) | None => Raise TypeError end.
Definition py_mul2_floordiv3 (v : oval) : res oval :=
  match oval_num v with Some z => Ok (VInt (z * 2 / 3)) | None => Raise TypeError end.

Fixpoint str_endswith_aux (s suf : string) (n : nat) : bool :=
  (* drop n characters of s, compare the rest with suf *)
  match n, s with
  | O, _ => String.eqb s suf
  | S k, String _ t => str_endswith_aux t suf k
  | S _, EmptyString => false
  end.
Definition str_endswith (s suf : string) : bool :=
  Nat.leb (String.length suf) (String.length s) &&
  str_endswith_aux s suf (String.length s - String.length suf).

Definition lower_char (c : ascii) : ascii :=
  let n := nat_of_ascii c in
  if Nat.leb 65 n && Nat.leb n 90 then ascii_of_nat (n + 32) else c.
Fixpoint str_lower (s : string) : string :=
  match s with EmptyString => EmptyString | String c t => String (lower_char c) (str_lower t) end.

(* s.split('=') *)
Fixpoint split_eq (s : string) (cur : string) : list string :=
  match s with
  | EmptyString => [cur]
  | String c t => if Ascii.eqb c "="%char then cur :: split_eq t EmptyString
                  else split_eq t (cur ++ String c EmptyString)
  end.

(* sorted() of a set of str: ascending code points (String.compare is lexicographic on byte values,
   which orders UTF-8 text as Python orders the code points), duplicates dropped *)
Fixpoint insert_sorted (x : string) (l : list string) : list string :=
  match l with
  | [] => [x]
  | y :: t => match String.compare x y with
              | Lt => x :: l
              | Eq => l
              | Gt => y :: insert_sorted x t
              end
  end.
Definition sort_set (l : list string) : list string := fold_right insert_sorted [] l.

(* ------------------------------------------------------------------ dicts *)
Section Dict.
Context {V : Type}.
Definition dict := list (string * V).
Fixpoint dget (k : string) (d : dict) : option V :=
  match d with
  | [] => None
  | (k', v) :: t => if String.eqb k k' then Some v else dget k t
  end.
Definition dmem (k : string) (d : dict) : bool := match dget k d with Some _ => true | None => false end.
Fixpoint dset (k : string) (v : V) (d : dict) : dict :=
  match d with
  | [] => [(k, v)]
  | (k', v') :: t => if String.eqb k k' then (k', v) :: t else (k', v') :: dset k v t
  end.
Definition dsetdefault (k : string) (v : V) (d : dict) : dict := if dmem k d then d else dset k v d.
Definition dkeys (d : dict) : list string := map fst d.
(* d.update(e) *)
Definition dupdate (d e : dict) : dict := fold_left (fun acc kv => dset (fst kv) (snd kv) acc) e d.
(* d.get(k, dflt) *)
Definition dget_or (k : string) (d : dict) (dflt : V) : V := match dget k d with Some v => v | None => dflt end.
(* dict built from (key, value) pairs, later pairs winning *)
Definition dict_of_list (l : list (string * V)) : dict := dupdate [] l.
End Dict.
Arguments dict : clear implicits.

(* ------------------------------------------------------------------ class Options *)
Record store := mkStore {
  o_cmd : dict oval;            (* self.cmd_options *)
  o_file : dict oval;           (* self.file_options *)
  o_default : dict oval;        (* self.default *)
  o_force : dict oval;          (* self.force *)
  o_allowed : dict (list oval)  (* self.allowed *)
}.
Definition set_cmd (o : store) (d : dict oval) := mkStore d (o_file o) (o_default o) (o_force o) (o_allowed o).
Definition set_file (o : store) (d : dict oval) := mkStore (o_cmd o) d (o_default o) (o_force o) (o_allowed o).
Definition set_default (o : store) (d : dict oval) := mkStore (o_cmd o) (o_file o) d (o_force o) (o_allowed o).
Definition set_force (o : store) (d : dict oval) := mkStore (o_cmd o) (o_file o) (o_default o) d (o_allowed o).
Definition set_allowed (o : store) (d : dict (list oval)) := mkStore (o_cmd o) (o_file o) (o_default o) (o_force o) d.

(* normalize(dict): values rewritten in place *)
Definition normalize_dict (d : dict oval) : dict oval := map (fun kv => (fst kv, normalize_val (snd kv))) d.

(* Options(options): options is a dict (None / {} give an empty cmd layer) *)
Definition new_options (cmd : dict oval) : store := mkStore (normalize_dict cmd) [] [] [] [].

(* update(name, value, file_options) with a str name *)
Definition update1 (o : store) (k : string) (v : oval) (file_options : bool) : store :=
  if file_options then set_file o (dset k (normalize_val v) (o_file o))
  else set_cmd o (dset k (normalize_val v) (o_cmd o)).
(* update(dict, file_options=...) *)
Definition update_dict (o : store) (d : dict oval) (file_options : bool) : store :=
  fold_left (fun acc kv => update1 acc (fst kv) (snd kv) file_options) d o.

(* getopt: default, overridden by file, overridden by cmd, overridden by force; a key that is
   present with value None in a higher layer still overrides (dict.get(k, previous)) *)
Definition getopt (o : store) (k : string) : oval :=
  let v := dget_or k (o_default o) VNone in
  let v := dget_or k (o_file o) v in
  let v := dget_or k (o_cmd o) v in
  dget_or k (o_force o) v.

(* setopt(optname, default, force, allowed); allowed = [] stands for None / an empty tuple *)
Definition setopt_store (o : store) (k : string) (dflt : oval) (force : bool) : store :=
  let d := normalize_val dflt in
  let o1 := set_default o (dsetdefault k d (o_default o)) in
  if force then set_force o1 (dset k d (o_force o1)) else o1.
Definition setopt (k : string) (dflt : oval) (force : bool) (allowed : list oval) (o : store) : res oval * store :=
  let o2 := setopt_store o k dflt force in
  let v := getopt o2 k in
  match allowed with
  | [] => (Ok v, o2)
  | _ => let o3 := set_allowed o2 (dset k allowed (o_allowed o2)) in
         if negb (existsb (fun x => oval_eqb x v) allowed) then (Raise UsageError, o3) else (Ok v, o3)
  end.

Definition str_in (x : string) (l : list string) : bool := existsb (String.eqb x) l.

(* unused() *)
Definition unused (o : store) : list string :=
  let opts := (dkeys (o_file o) ++ dkeys (o_cmd o))%list in
  let opts := filter (fun k => negb (str_in k ["rule"; "path"])) opts in
  let opts := filter (fun k => negb (dmem k (o_default o))) opts in
  sort_set opts.

(* overrides() *)
Definition overrides (o : store) : list string :=
  let opts := dupdate (o_file o) (o_cmd o) in
  let overridden := filter (fun kv => match dget (fst kv) opts with
                                      | Some v => negb (oval_eqb v (snd kv))
                                      | None => false end) (o_force o) in
  sort_set (map fst overridden).

(* record() *)
Record orecord := mkRecord {
  rec_cmd : dict oval; rec_file : dict oval; rec_default : dict oval; rec_force : dict oval;
  rec_allowed : dict (list oval); rec_options : dict oval }.
Definition record (o : store) : orecord :=
  let effective := dupdate [] (o_default o) in
  let effective := dupdate effective (o_file o) in
  let effective := dupdate effective (o_cmd o) in
  let effective := dupdate effective (o_force o) in
  mkRecord (o_cmd o) (o_file o) (o_default o) (o_force o) (o_allowed o) effective.

(* ------------------------------------------------------------------ Options.parse *)
Definition arithmetic_names : list string := ["fixed"; "integer"; "rational"; "guarded"].
(* droop.electionRuleNames() *)
Definition rule_names : list string :=
  ["cfer"; "cfer-batch"; "meek"; "meek-prf"; "mpls"; "qpq"; "scotland"; "warren"; "wigm"; "wigm-prf"; "wigm-prf-batch"].

Definition str_truthy (s : string) : bool := match s with EmptyString => false | _ => true end.

(* one loop iteration of parse: (options, path) -> ... *)
Definition parse_step (acc : dict oval * option string) (opt : string) : res (dict oval * option string) :=
  let '(options, path) := acc in
  match split_eq opt EmptyString with
  | [a] =>
      if str_in a arithmetic_names then Ok (dset "arithmetic" (VStr a) options, path)
      else if str_in a rule_names then Ok (dset "rule" (VStr a) options, path)
      else if str_in a ["report"; "dump"; "json"] then Ok (dset a (VBool true) options, path)
      else match path with
           | Some p => if str_truthy p then Raise UsageError else Ok (dset "path" (VStr a) options, Some a)
           | None => Ok (dset "path" (VStr a) options, Some a)
           end
  | a :: b :: _ =>
      let lb := str_lower b in
      if str_in lb ["false"; "no"] then Ok (dset a (VBool false) options, path)
      else if str_in lb ["true"; "yes"] then Ok (dset a (VBool true) options, path)
      else Ok (dset a (VStr b) options, path)
  | [] => Ok acc   (* split never returns an empty list *)
  end.
Fixpoint parse_loop (opts : list string) (acc : dict oval * option string) : res (dict oval) :=
  match opts with
  | [] => Ok (fst acc)
  | opt :: t => match parse_step acc opt with Ok acc' => parse_loop t acc' | Raise e => Raise e end
  end.
Definition parse (opts : list string) : res (dict oval) := parse_loop opts ([], None).

(* ------------------------------------------------------------------ state + exception plumbing *)
Definition SM (S A : Type) := S -> res A * S.
Definition sret {S A} (a : A) : SM S A := fun s => (Ok a, s).
Definition sraise {S A} (e : exn) : SM S A := fun s => (Raise e, s).
Definition sbind {S A B} (m : SM S A) (f : A -> SM S B) : SM S B :=
  fun s => match m s with (Ok a, s') => f a s' | (Raise e, s') => (Raise e, s') end.
Definition slift {S A} (r : res A) : SM S A := fun s => (r, s).
Definition sget {S A} (f : S -> A) : SM S A := fun s => (Ok (f s), s).
Notation "x <~ m ;; k" := (sbind m (fun x => k)) (at level 61, m at next level, right associativity).
Notation "m ;;; k" := (sbind m (fun _ => k)) (at level 61, right associativity).

(* ------------------------------------------------------------------ the rules' options() *)
(* the attributes options() leaves on the rule object; None = the attribute does not exist *)
Record ruleparams := mkParams {
  rp_name : option oval;
  rp_integer_quota : option oval;
  rp_defeat_batch : option oval;
  rp_warren : option oval;
  rp_omega10 : option oval
}.

(* the Rule classes (droop.ruleByName maps the 11 names onto them) *)
Inductive rulecls := KWigm | KWigmPrf | KCfer | KScotland | KMpls | KMeek | KMeekPrf | KQpq.
Definition rule_by_name (s : string) : option rulecls :=
  if str_in s ["wigm"] then Some KWigm
  else if str_in s ["wigm-prf"; "wigm-prf-batch"] then Some KWigmPrf
  else if str_in s ["cfer"; "cfer-batch"] then Some KCfer
  else if str_in s ["scotland"] then Some KScotland
  else if str_in s ["mpls"] then Some KMpls
  else if str_in s ["meek"; "warren"] then Some KMeek
  else if str_in s ["meek-prf"] then Some KMeekPrf
  else if str_in s ["qpq"] then Some KQpq
  else None.

Definition getopt_m (k : string) : SM store oval := sget (fun o => getopt o k).
(* name.endswith('batch') *)
Definition endswith_batch (name : oval) : res oval :=
  match name with VStr s => Ok (VBool (str_endswith s "batch")) | _ => Raise AttributeError end.

Definition vs (s : string) : oval := VStr s.

(* rules/wigm.py *)
Definition wigm_options : SM store ruleparams :=
  a <~ setopt "arithmetic" (vs "guarded") false [] ;;
  (if oval_eqb a (vs "guarded") then
     setopt "precision" (VInt 18) false [] ;;;
     p <~ getopt_m "precision" ;;
     h <~ slift (py_floordiv_int p 2) ;;
     setopt "guard" h false [] ;;; sret tt
   else
     a2 <~ getopt_m "arithmetic" ;;
     if oval_eqb a2 (vs "fixed") then setopt "precision" (VInt 9) false [] ;;; sret tt
     else sret tt) ;;;
  iq <~ setopt "integer_quota" (VBool false) false [VBool true; VBool false] ;;
  db <~ setopt "defeat_batch" (vs "none") false [vs "none"; vs "zero"] ;;
  sret (mkParams (Some (vs "wigm")) (Some iq) (Some db) None None).

(* rules/wigm_prf.py (precision = 4) and rules/cfer.py (precision = 5) share the text *)
Definition prf_options (precision : Z) : SM store ruleparams :=
  name <~ getopt_m "rule" ;;
  db <~ slift (endswith_batch name) ;;
  setopt "arithmetic" (vs "fixed") true [] ;;;
  setopt "precision" (VInt precision) true [] ;;;
  setopt "display" (VInt precision) true [] ;;;
  sret (mkParams (Some name) None (Some db) None None).

(* rules/scotland.py (5) and rules/mpls.py (4) *)
Definition statute_fixed_options (rname : string) (precision : Z) : SM store ruleparams :=
  setopt "arithmetic" (vs "fixed") true [] ;;;
  setopt "precision" (VInt precision) true [] ;;;
  setopt "display" (VInt precision) true [] ;;;
  sret (mkParams (Some (vs rname)) None None None None).

(* rules/meek.py *)
Definition meek_options : SM store ruleparams :=
  name <~ getopt_m "rule" ;;
  let warren := VBool (oval_eqb name (vs "warren")) in
  a <~ setopt "arithmetic" (vs "guarded") false [] ;;
  om <~ (if oval_eqb a (vs "guarded") then
           p <~ setopt "precision" (VInt 18) false [] ;;
           h <~ slift (py_floordiv_int p 2) ;;
           setopt "guard" h false [] ;;;
           h2 <~ slift (py_floordiv_int p 2) ;;
           setopt "omega" h2 false []
         else if oval_eqb a (vs "fixed") then
           p <~ setopt "precision" (VInt 9) false [] ;;
           h <~ slift (py_mul2_floordiv3 p) ;;
           setopt "omega" h false []
         else if oval_eqb a (vs "rational") then
           setopt "omega" (VInt 10) false []
         else sret VNone (* self.omega10 keeps the None of __init__ *)) ;;
  db <~ setopt "defeat_batch" (vs "safe") false [vs "none"; vs "safe"] ;;
  sret (mkParams (Some name) None (Some db) (Some warren) (Some om)).

(* rules/meek_prf.py: precision = 9, omega10 = 6, name = 'meek-prf' are class attributes *)
Definition meek_prf_options : SM store ruleparams :=
  setopt "arithmetic" (vs "fixed") true [] ;;;
  setopt "precision" (VInt 9) true [] ;;;
  setopt "display" (VInt 9) true [] ;;;
  setopt "omega" (VInt 6) true [] ;;;
  sret (mkParams (Some (vs "meek-prf")) None None None (Some (VInt 6))).

(* rules/qpq.py *)
Definition qpq_options : SM store ruleparams :=
  setopt "arithmetic" (vs "guarded") true [] ;;;
  setopt "precision" (VInt 9) true [] ;;;
  setopt "guard" (VInt 9) true [] ;;;
  setopt "display" (VInt 9) true [] ;;;
  sret (mkParams (Some (vs "qpq")) None None None None).

Definition rule_options (k : rulecls) : SM store ruleparams :=
  match k with
  | KWigm => wigm_options
  | KWigmPrf => prf_options 4
  | KCfer => prf_options 5
  | KScotland => statute_fixed_options "scotland" 5
  | KMpls => statute_fixed_options "mpls" 4
  | KMeek => meek_options
  | KMeekPrf => meek_prf_options
  | KQpq => qpq_options
  end.

(* values.ArithmeticClass: the dispatch on the option (the initialize() calls are in ClassState.v) *)
Inductive acls := AFixed | AGuarded | ARational.
Definition arithmetic_dispatch (a : oval) : res acls :=
  if oval_eqb a (vs "rational") then Ok ARational
  else if oval_eqb a (vs "fixed") || oval_eqb a (vs "integer") then Ok AFixed
  else if oval_eqb a (vs "guarded") then Ok AGuarded
  else Raise ArithmeticValuesError.
