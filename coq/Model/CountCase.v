(* CountCase: what the count-based sub-drivers share -- token readers, the printed names of tags / states /
   one-letter codes, and the parser of a count case.  Definitions only.
   (Factored out of Driver.v so that DriverRender.v can be imported by Driver.v without a cycle.) *)
From Coq Require Import ZArith List Bool String Ascii.
From Coq Require Import PArith.
From Droop Require Import Model.KernelBase Model.Str Model.Arith
  Model.Prelude Model.State Model.Prims Model.RulesGregory Model.RulesMeek Model.Election Model.DriverBase.
Import ListNotations.
Open Scope string_scope.
Open Scope Z_scope.


(* ------------------------------------------------------------------ count driver *)
(* token stream readers *)
Definition rd_int (l : list tok) : option (Z * list tok) :=
  match l with TI z :: t => Some (z, t) | _ => None end.
Definition rd_str (l : list tok) : option (string * list tok) :=
  match l with TS x :: t => Some (x, t) | _ => None end.
Fixpoint rd_ints (n : nat) (l : list tok) : option (list Z * list tok) :=
  match n with
  | O => Some ([], l)
  | S k => match rd_int l with
           | Some (z, t) => match rd_ints k t with Some (zs, t') => Some (z :: zs, t') | None => None end
           | None => None end
  end.

Definition rd_cand (l : list tok) : option (pcand * list tok) :=
  match l with
  | TI c :: TI o :: TI ti :: TS nm :: TS nk :: TI w :: TI u :: t =>
    Some (mkPcand c o ti nm nk (negb (w =? 0)) (negb (u =? 0)), t)
  | _ => None
  end.
Fixpoint rd_many {X} (rd : list tok -> option (X * list tok)) (n : nat) (l : list tok) : option (list X * list tok) :=
  match n with
  | O => Some ([], l)
  | S k => match rd l with
           | Some (x, t) => match rd_many rd k t with Some (xs, t') => Some (x :: xs, t') | None => None end
           | None => None end
  end.
Definition rd_ballot (l : list tok) : option ((Z * list Z) * list tok) :=
  match l with
  | TI m :: TI n :: t => match rd_ints (Z.to_nat n) t with Some (r, t') => Some ((m, r), t') | None => None end
  | _ => None
  end.
Definition rd_rank (l : list tok) : option (list Z * list tok) :=
  match l with
  | TI n :: t => rd_ints (Z.to_nat n) t
  | _ => None
  end.
Definition rd_eballot (l : list tok) : option ((Z * list (list Z)) * list tok) :=
  match l with
  | TI m :: TI n :: t => match rd_many rd_rank (Z.to_nat n) t with Some (r, t') => Some ((m, r), t') | None => None end
  | _ => None
  end.

Definition tag_name (t : tag) : string :=
  match t with
  | TBegin => "begin" | TCount => "count" | TLog => "log" | TRound => "round" | TTie => "tie" | TElect => "elect"
  | TDefeat => "defeat" | TIterate => "iterate" | TUnpend => "unpend" | TTransfer => "transfer" | TEnd => "end"
  end.
Definition state_name (c : cstate) : string :=
  match c with Hopeful => "hopeful" | Elected => "elected" | Defeated => "defeated" | Withdrawn => "withdrawn" end.
Definition is_wigm (m : meth) : bool := match m with MWigm => true | _ => false end.
Definition code_of (m : meth) (c : cstate) (p : option bool) : string :=
  match c with
  | Withdrawn => "W" | Hopeful => "H" | Defeated => "D"
  | Elected => if is_wigm m && match p with Some true => true | _ => false end then "e" else "E"
  end.
Definition lf : string := String (Ascii.ascii_of_nat 10) EmptyString.

Definition rule_of (z : Z) : rule :=
  match z with
  | 0 => RWigm | 1 => RWigmPrf | 2 => RScotland | 3 => RCfer | 4 => RMpls | 5 => RMeek | 6 => RMeekPrf | _ => RQpq
  end.
Definition meth_of (r : rule) : meth :=
  match r with RMeek | RMeekPrf => MMeek | RQpq => MQpq | _ => MWigm end.

(* count <rulename> rule arith p g d stale omega10 intquota batchzero batch warren fuelbits nseats nballots
         ncand {cid order tie name nick w u}* nb {mult n cid*}* neb {mult nr {n cid*}*}* *)
Record count_case := mkCase {
  cc_rule : rule; cc_cfg : config; cc_fuel : positive; cc_profile : profile;
  cc_ar : Z; cc_p : Z; cc_g : Z; cc_d : Z; cc_stale : Z }.

Definition parse_count_case (l : list tok) : string + count_case :=
  match l with
  | TS rname :: TI rl :: TI ar :: TI p :: TI g :: TI d :: TI stale :: TI om :: TI iq :: TI bz :: TI bt :: TI wa ::
    TI fb :: TI ns :: TI nb :: TI nc :: rest =>
    match rd_many rd_cand (Z.to_nat nc) rest with
    | None => inl "badcands"
    | Some (cs, rest1) =>
      match rest1 with
      | TI nbl :: rest2 =>
        match rd_many rd_ballot (Z.to_nat nbl) rest2 with
        | None => inl "badballots"
        | Some (bs, rest3) =>
          match rest3 with
          | TI nebl :: rest4 =>
            match rd_many rd_eballot (Z.to_nat nebl) rest4 with
            | None => inl "badeballots"
            | Some (ebs, _) =>
              let r := rule_of rl in
              let cfg := mkConfig rname (meth_of r) ns nb (negb (iq =? 0)) (negb (bz =? 0)) (negb (bt =? 0))
                                  (negb (wa =? 0)) om in
              let pr := mkProfile ns nb cs bs ebs in
              let fuel := Pos.pow 2 (Z.to_pos fb) in
              inr (mkCase r cfg fuel pr ar p g d stale)
            end
          | _ => inl "badeballots"
          end
        end
      | _ => inl "badballots"
      end
    end
  | _ => inl "badcount"
  end.
