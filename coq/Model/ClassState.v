(* ClassState: the class-level state of droop.values.{fixed.Fixed, guarded.Guarded,
   rational.Rational} as an explicit value, the three initialize(options) classmethods as
   transformers of (option store, class state), values.ArithmeticClass and the option-handling
   lines of Election.__init__.  Definitions only.

   [gstate] has one slot per class attribute that some initialize() assigns (a finite map from the
   enumeration [field] to optional values: a record of 32 optional fields, written as a function so
   that one [gset] serves all of them); a slot is None while the attribute still has its class-body
   value (or does not exist yet).  Attributes nobody ever
   assigns are constants of the class body and are not state: Fixed.exact = Fixed.quasi_exact =
   False, Guarded.name = 'guarded', Rational.name/info/exact/quasi_exact, and
   Rational.__default_denominator (assigned only if Fraction(1, None) raises TypeError, which it
   does not on the supported interpreters).

   Statements are kept in source order, including the order of assignments and raises: a failed
   initialize() leaves the attributes it had already assigned. *)
From Coq Require Import ZArith List Bool String Ascii.
From Droop Require Import Model.KernelBase Model.Str Model.Arith Model.Options.
Import ListNotations.
Open Scope string_scope.
Open Scope Z_scope.

Inductive field :=
(* Fixed *)
| FxName | FxInfo | FxEpsilon | FxPrecision | FxDisplay | FxScale | FxDfmt | FxScaled | FxScaledd | FxScaledr
(* Guarded *)
| GdPrecision | GdGuard | GdDisplay | GdScale | GdScalep | GdScaleg | GdScaled | GdScaledd | GdScaledr
| GdScaledg | GdGeps | GdMaxDiff | GdMinDiff | GdDfmt | GdInfo | GdQuasiExact | GdExact | GdEpsilon
(* Rational *)
| RtDp | RtDps | RtDpr | RtDfmt.

Definition all_fields : list field :=
  [FxName; FxInfo; FxEpsilon; FxPrecision; FxDisplay; FxScale; FxDfmt; FxScaled; FxScaledd; FxScaledr;
   GdPrecision; GdGuard; GdDisplay; GdScale; GdScalep; GdScaleg; GdScaled; GdScaledd; GdScaledr;
   GdScaledg; GdGeps; GdMaxDiff; GdMinDiff; GdDfmt; GdInfo; GdQuasiExact; GdExact; GdEpsilon;
   RtDp; RtDps; RtDpr; RtDfmt].

Definition field_idx (f : field) : Z :=
  match f with
  | FxName => 0 | FxInfo => 1 | FxEpsilon => 2 | FxPrecision => 3 | FxDisplay => 4 | FxScale => 5 | FxDfmt => 6
  | FxScaled => 7 | FxScaledd => 8 | FxScaledr => 9
  | GdPrecision => 10 | GdGuard => 11 | GdDisplay => 12 | GdScale => 13 | GdScalep => 14 | GdScaleg => 15
  | GdScaled => 16 | GdScaledd => 17 | GdScaledr => 18 | GdScaledg => 19 | GdGeps => 20 | GdMaxDiff => 21
  | GdMinDiff => 22 | GdDfmt => 23 | GdInfo => 24 | GdQuasiExact => 25 | GdExact => 26 | GdEpsilon => 27
  | RtDp => 28 | RtDps => 29 | RtDpr => 30 | RtDfmt => 31
  end.
Definition field_eqb (a b : field) : bool := field_idx a =? field_idx b.

(* an attribute value: int, str, bool, a raw option value (Rational.dp), a value object given by
   its raw _value (epsilon), 1/den (Rational._dpr), or a float (10 ** negative) *)
Inductive fv := FZ (z : Z) | FS (s : string) | FB (b : bool) | FO (v : oval) | FFloat.

Definition gstate := field -> option fv.
Definition g_init : gstate := fun _ => None.      (* a fresh interpreter: class bodies only *)
Definition gset (f : field) (v : fv) (g : gstate) : gstate :=
  fun f' => if field_eqb f f' then Some v else g f'.

(* a sequence of attribute assignments, oldest first, and its effect on the class state *)
Definition wlog := list (field * fv).
Definition apply_log (l : wlog) (g : gstate) : gstate := fold_left (fun g fv => gset (fst fv) (snd fv) g) l g.

Definition getZ (g : gstate) (f : field) : Z := match g f with Some (FZ z) => z | _ => 0 end.
Definition getS (g : gstate) (f : field) : string := match g f with Some (FS s) => s | _ => "" end.
(* Guarded.exact / quasi_exact are True in the class body *)
Definition getB (g : gstate) (f : field) : bool := match g f with Some (FB b) => b | _ => true end.

(* ------------------------------------------------------------------ plumbing *)
(* initialize() mutates the Options object, assigns class attributes and may raise: a function
   store -> (result, store afterwards, assignments made so far).  The only class attributes
   initialize() reads are ones it has assigned a few lines earlier in the same call (class
   attributes are plain: no descriptors, no metaclass), so the value read is the value assigned
   and is written here as the local name it was assigned from. *)
Definition WM (A : Type) := store -> res A * store * wlog.
Definition wret {A} (a : A) : WM A := fun o => (Ok a, o, []).
Definition wraise {A} (e : exn) : WM A := fun o => (Raise e, o, []).
Definition wbind {A B} (m : WM A) (k : A -> WM B) : WM B :=
  fun o => match m o with
           | (Ok a, o', l) => match k a o' with (r, o'', l') => (r, o'', (l ++ l')%list) end
           | (Raise e, o', l) => (Raise e, o', l)
           end.
Definition w_op {A} (m : SM store A) : WM A := fun o => (fst (m o), snd (m o), []).
Definition wlift {A} (r : res A) : WM A := fun o => (r, o, []).
Definition wr (f : field) (v : fv) : WM unit := fun o => (Ok tt, o, [(f, v)]).
Definition wtell (l : wlog) : WM unit := fun o => (Ok tt, o, l).
Definition wwhen_raise (b : bool) (e : exn) : WM unit := if b then wraise e else wret tt.
Notation "x <~~ m ;; k" := (wbind m (fun x => k)) (at level 61, m at next level, right associativity).
Notation "m ;;;; k" := (wbind m (fun _ => k)) (at level 61, right associativity).

(* running it on a class state *)
Definition world := (store * gstate)%type.
Definition run_w {A} (m : WM A) (w : world) : res A * world :=
  match m (fst w) with (r, o', l) => (r, (o', apply_log l (snd w))) end.

(* try: int(v)  except ValueError: raise UsageError   (a TypeError from int(None) propagates) *)
Definition usage_int (v : oval) : res Z :=
  match py_int v with Raise ValueError => Raise UsageError | r => r end.

(* ------------------------------------------------------------------ Fixed.initialize *)
(* from `cls.__scale = 10 ** cls.precision` to the end; display is the local after the range clamp *)
Definition fixed_tail (name : string) (p display : Z) : wlog :=
  let d := display in                                          (* cls.display = int(display) *)
  [(FxScale, FZ (10 ^ p)); (FxDisplay, FZ d); (FxScaled, FZ (10 ^ d));
   (FxScaledd, FZ (10 ^ (p - d))); (FxScaledr, FZ (10 ^ (p - d) / 2));
   (FxEpsilon, FZ 1);                                          (* cls(0) with _value = 1 *)
   (FxDfmt, FS ("%d.%0" ++ string_of_Z d ++ "d"));
   (FxInfo, FS (if String.eqb name "integer" then "integer arithmetic"
                else if negb (d =? p) then
                  "fixed-point decimal arithmetic (" ++ string_of_Z p ++ " places, " ++ string_of_Z d ++ " displayed)"
                else "fixed-point decimal arithmetic (" ++ string_of_Z p ++ " places)"))].

Definition initialize_fixed : WM unit :=
  arithmetic <~~ w_op (getopt_m "arithmetic") ;;
  wwhen_raise (negb (oval_eqb arithmetic (vs "fixed") || oval_eqb arithmetic (vs "integer"))) UsageError ;;;;
  precision <~~ (if oval_eqb arithmetic (vs "integer")
                 then w_op (setopt "precision" (VInt 0) true [])
                 else w_op (getopt_m "precision")) ;;
  let name := if oval_eqb precision (VInt 0) then "integer" else "fixed" in
  wr FxName (FS name) ;;;;
  p <~~ wlift (usage_int precision) ;;
  wr FxPrecision (FZ p) ;;;;
  wwhen_raise ((p <? 0) || negb (String.eqb (string_of_Z p) (py_str precision))) UsageError ;;;;
  d0 <~~ w_op (getopt_m "display") ;;
  (if is_none d0 then w_op (setopt "display" (VInt p) false []) ;;;; wret tt else wret tt) ;;;;
  display <~~ w_op (getopt_m "display") ;;
  display <~~ wlift (usage_int display) ;;
  let display := if (display <? 0) || (p <? display) then p else display in
  wtell (fixed_tail name p display).

(* ------------------------------------------------------------------ Guarded.initialize *)
(* the pattern used for precision, guard and display:
     try: cls.x = int(v)  except ValueError: raise UsageError
     if cls.x < 0 or str(cls.x) != str(v): raise UsageError *)
Definition checked_int_attr (f : field) (v : oval) : WM Z :=
  x <~~ wlift (usage_int v) ;;
  wr f (FZ x) ;;;;
  wwhen_raise ((x <? 0) || negb (String.eqb (string_of_Z x) (py_str v))) UsageError ;;;;
  wret x.

(* from `cls.__scalep = 10 ** cls.precision` to the end *)
Definition guarded_tail (p gd d1 : Z) : wlog :=
  let d := if p + gd <? d1 then p + gd else d1 in              (* cls.display from here on *)
  let geps := 10 ^ gd / 2 in
  ([(GdScalep, FZ (10 ^ p)); (GdScaleg, FZ (10 ^ gd)); (GdScale, FZ (10 ^ (p + gd)))] ++
   (if p + gd <? d1 then [(GdDisplay, FZ (p + gd))] else []) ++
   [(GdScaledd, FZ (10 ^ (gd + p - d))); (GdScaledr, FZ (10 ^ (gd + p - d) / 2)); (GdScaled, FZ (10 ^ d))] ++
   (if p <? d then [(GdScaledg, FZ (10 ^ (d - p)))] else []) ++
   [(GdGeps, FZ geps)] ++
   (if geps =? 0 then [(GdGeps, FZ 1)] else []) ++
   [(GdMaxDiff, FZ 0); (GdMinDiff, FZ (10 ^ (p + gd) * 100))] ++
   [(GdDfmt, FS (if d <=? p then "%d.%0" ++ string_of_Z d ++ "d"
                 else "%d.%0" ++ string_of_Z p ++ "d_%0" ++ string_of_Z (d - p) ++ "d"))] ++
   [(GdInfo, FS (if negb (d =? p) then
                   "guarded-precision fixed-point decimal arithmetic (" ++ string_of_Z p ++ "+" ++
                   string_of_Z gd ++ " places; " ++ string_of_Z d ++ " displayed)"
                 else
                   "guarded-precision fixed-point decimal arithmetic (" ++ string_of_Z p ++ "+" ++
                   string_of_Z gd ++ " places)"))] ++
   (if gd =? 0 then [(GdQuasiExact, FB false); (GdExact, FB false); (GdEpsilon, FZ 1)]
    else [(GdQuasiExact, FB true); (GdExact, FB true)]))%list.

Definition initialize_guarded : WM unit :=
  arithmetic <~~ w_op (getopt_m "arithmetic") ;;
  wwhen_raise (negb (oval_eqb arithmetic (vs "guarded"))) UsageError ;;;;
  precision <~~ w_op (getopt_m "precision") ;;
  p <~~ checked_int_attr GdPrecision precision ;;
  g0 <~~ w_op (getopt_m "guard") ;;
  (if is_none g0 then w_op (setopt "guard" (VInt p) false []) ;;;; wret tt else wret tt) ;;;;
  guard <~~ w_op (getopt_m "guard") ;;
  gd <~~ checked_int_attr GdGuard guard ;;
  d0 <~~ w_op (getopt_m "display") ;;
  (if is_none d0 then w_op (setopt "display" (VInt p) false []) ;;;; wret tt else wret tt) ;;;;
  display <~~ w_op (getopt_m "display") ;;
  d1 <~~ checked_int_attr GdDisplay display ;;
  wtell (guarded_tail p gd d1).

(* ------------------------------------------------------------------ Rational.initialize *)
(* 10 ** dp : TypeError for None / str; an int for a bool or a non-negative int; a float otherwise *)
Definition pow10_oval (v : oval) : res fv :=
  match oval_num v with
  | None => Raise TypeError
  | Some z => if z <? 0 then Ok FFloat else Ok (FZ (10 ^ z))
  end.

Definition initialize_rational : WM unit :=
  d0 <~~ w_op (getopt_m "display") ;;
  (if is_none d0 then w_op (setopt "display" (VInt 12) false []) ;;;; wret tt else wret tt) ;;;;
  dp <~~ w_op (getopt_m "display") ;;
  wr RtDp (FO dp) ;;;;
  dps <~~ wlift (pow10_oval dp) ;;
  wr RtDps dps ;;;;
  (* Fraction(1, cls._dps*2): a float denominator is a TypeError *)
  match dps with
  | FZ n => wr RtDpr (FZ (n * 2)) ;;;; wr RtDfmt (FS ("%d.%0" ++ py_str dp ++ "d"))
  | _ => wraise TypeError
  end.

(* ------------------------------------------------------------------ values.ArithmeticClass *)
Definition arithmetic_class : WM acls :=
  a <~~ w_op (setopt "arithmetic" (vs "guarded") false []) ;;
  c <~~ wlift (arithmetic_dispatch a) ;;
  match c with
  | ARational => initialize_rational ;;;; wret ARational
  | AFixed => initialize_fixed ;;;; wret AFixed
  | AGuarded => initialize_guarded ;;;; wret AGuarded
  end.

(* Election.__init__ from `rulename = options.getopt('rule')` to `self.V = ArithmeticClass(...)` *)
Definition election_setup_w : WM (rulecls * ruleparams * acls) :=
  rulename <~~ w_op (getopt_m "rule") ;;
  wwhen_raise (is_none rulename) ElectionError ;;;;
  match (match rulename with VStr s => rule_by_name s | _ => None end) with
  | None => wraise ElectionError
  | Some k =>
      params <~~ w_op (rule_options k) ;;
      c <~~ arithmetic_class ;;
      wret (k, params, c)
  end.
Definition election_setup (w : world) : res (rulecls * ruleparams * acls) * world := run_w election_setup_w w.

(* Election.__init__ up to there: Options(cmd), update(parse(profile options), file_options=True) *)
Definition election_options (cmd : dict oval) (file : dict oval) : store :=
  update_dict (new_options cmd) file true.

(* a sequence of earlier elections, each constructed on a fresh Options object; failures are
   swallowed (the caller caught the exception) but leave their partial assignments behind *)
Definition run_history (h : list store) (g : gstate) : gstate :=
  fold_left (fun g o => snd (snd (election_setup (o, g)))) h g.

(* ------------------------------------------------------------------ the class records the kernels read *)
Definition fixed_cls_of (g : gstate) : fixed_cls :=
  {| f_precision := getZ g FxPrecision; f_display := getZ g FxDisplay; f_scale := getZ g FxScale;
     f_scaled := getZ g FxScaled; f_scaledd := getZ g FxScaledd; f_scaledr := getZ g FxScaledr |}.
Definition guarded_cls_of (g : gstate) : guarded_cls :=
  {| g_precision := getZ g GdPrecision; g_guard := getZ g GdGuard; g_display := getZ g GdDisplay;
     g_scale := getZ g GdScale; g_scalep := getZ g GdScalep; g_scaleg := getZ g GdScaleg;
     g_scaled := getZ g GdScaled; g_scaledd := getZ g GdScaledd; g_scaledr := getZ g GdScaledr;
     g_scaledg := getZ g GdScaledg; g_geps := getZ g GdGeps |}.

(* ------------------------------------------------------------------ which attributes are read *)
Definition is_fx (f : field) : bool := field_idx f <? 10.
Definition is_gd (f : field) : bool := (10 <=? field_idx f) && (field_idx f <? 28).
Definition is_rt (f : field) : bool := 28 <=? field_idx f.

(* [reads c g f]: may attribute f be read while an election whose arithmetic class is c runs on
   class state g?  Only attributes of the selected class are read at all.  Sources:
   - Gen/FixedKernels.v, Gen/GuardedKernels.v: every f_* / g_* projection; g_scaledg occurs only in
     dunder_str under `display <= precision` = false;
   - Arith.fixed_str / guarded_str / rational_str, guarded_report: display, precision, dp, __dfmt,
     _dps, _dpr, maxDiff, minDiff, __geps, __scaleg, __scale;
   - the rules and the record: V.name, V.info, V.exact, V.quasi_exact, V.precision, V.display,
     V.guard, and V.epsilon only on the `not V.exact` side of `if V.exact` (wigm, meek) or
     unconditionally in rules that force Fixed (wigm-prf, cfer, meek-prf). *)
Definition reads (c : acls) (g : gstate) (f : field) : bool :=
  match c with
  | AFixed => is_fx f
  | AGuarded =>
      match f with
      | GdScaledg => getZ g GdPrecision <? getZ g GdDisplay
      | GdEpsilon => negb (getB g GdExact)
      | _ => is_gd f
      end
  | ARational => is_rt f
  end.
