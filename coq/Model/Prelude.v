(* Prelude: CPython list algorithms the rules rely on, and the command-tree interpreter.
   Definitions only. *)
From Coq Require Import ZArith List Bool PArith.
Import ListNotations.

(* ------------------------------------------------------------------------
   sorted() for n < 64 elements, as listobject.c does it: count_run (an initial
   ascending run, or a strictly descending one which is reversed), then binary
   insertion of the remaining elements; only "<" on keys is used.  With a
   non-transitive "<" (Guarded) the exact algorithm matters.  reverse=True
   reverses, sorts, reverses. *)
Section Sort.
Variable X : Type.
Variable lt : X -> X -> bool.

(* length of the initial run of [prev :: l]: ascending = while not (next < prev) *)
Fixpoint run_asc (prev : X) (l : list X) : nat :=
  match l with
  | [] => O
  | x :: t => if lt x prev then O else S (run_asc x t)
  end.
Fixpoint run_desc (prev : X) (l : list X) : nat :=
  match l with
  | [] => O
  | x :: t => if lt x prev then S (run_desc x t) else O
  end.

(* binary search for the insertion point of pivot in the sorted prefix (as a list):
   l = 0, r = len; while l < r: p = l + (r-l)/2; if pivot < a[p]: r = p else l = p+1 *)
Fixpoint bsearch (fuel : nat) (a : list X) (pivot : X) (l r : nat) : nat :=
  match fuel with
  | O => l
  | S f =>
    if Nat.ltb l r then
      let p := l + Nat.div2 (r - l) in
      match nth_error a p with
      | Some ap => if lt pivot ap then bsearch f a pivot l p else bsearch f a pivot (S p) r
      | None => l
      end
    else l
  end.

Definition insert_at (a : list X) (i : nat) (x : X) : list X := firstn i a ++ x :: skipn i a.

Fixpoint binsort (sorted rest : list X) : list X :=
  match rest with
  | [] => sorted
  | x :: t =>
    let n := length sorted in
    binsort (insert_at sorted (bsearch (S n) sorted x 0 n) x) t
  end.

Definition py_sort (l : list X) : list X :=
  match l with
  | [] => []
  | [x] => [x]
  | x :: y :: t =>
    if lt y x then
      let n := S (S (run_desc y t)) in
      binsort (rev (firstn n l)) (skipn n l)
    else
      let n := S (S (run_asc y t)) in
      binsort (firstn n l) (skipn n l)
  end.

Definition py_sorted (reverse : bool) (l : list X) : list X :=
  if reverse then rev (py_sort (rev l)) else py_sort l.
End Sort.
Arguments py_sort {X}.
Arguments py_sorted {X}.

(* ------------------------------------------------------------------------
   command trees over a state, with break / continue, and binary positive fuel
   for loops (a loop of fuel p runs at most Pos.to_nat p iterations; recursion
   depth is the bit length).  Abort = a micro-operation recorded a crash. *)
Section Cmd.
Variable St : Type.
Variable crashed : St -> bool.

Inductive ctl := Next | Brk | Cont | Abort.

Inductive cmd :=
| Do (f : St -> St)
| Seq (a b : cmd)
| Ite (g : St -> bool) (a b : cmd)
| While (g : St -> bool) (body : cmd)
| Break | Continue | Skip.

(* one iteration: Some (s', true) = keep looping; Some (s', false) = loop finished *)
Definition iter_once (run : St -> option (St * ctl)) (g : St -> bool) (s : St) : option (St * bool * ctl) :=
  if g s then
    match run s with
    | Some (s', Brk) => Some (s', false, Next)
    | Some (s', Abort) => Some (s', false, Abort)
    | Some (s', _) => Some (s', true, Next)
    | None => None
    end
  else Some (s, false, Next).

(* runs up to (Pos.to_nat p) iterations; result: (state, still-wants-to-run, ctl) *)
Fixpoint loopP (run : St -> option (St * ctl)) (g : St -> bool) (p : positive) (s : St)
  : option (St * bool * ctl) :=
  match p with
  | xH => iter_once run g s
  | xO q =>
    match loopP run g q s with
    | Some (s', true, _) => loopP run g q s'
    | r => r
    end
  | xI q =>
    match iter_once run g s with
    | Some (s1, true, _) =>
      match loopP run g q s1 with
      | Some (s2, true, _) => loopP run g q s2
      | r => r
      end
    | r => r
    end
  end.

Fixpoint exec (fuel : positive) (c : cmd) (s : St) : option (St * ctl) :=
  match c with
  | Do f => let s' := f s in Some (s', if crashed s' then Abort else Next)
  | Skip => Some (s, Next)
  | Break => Some (s, Brk)
  | Continue => Some (s, Cont)
  | Seq a b =>
    match exec fuel a s with
    | Some (s', Next) => exec fuel b s'
    | r => r
    end
  | Ite g a b => if g s then exec fuel a s else exec fuel b s
  | While g body =>
    match loopP (exec fuel body) g fuel s with
    | Some (s', false, k) => Some (s', k)
    | Some (_, true, _) => None          (* out of fuel *)
    | None => None
    end
  end.
End Cmd.
Arguments Do {St}. Arguments Seq {St}. Arguments Ite {St}. Arguments While {St}.
Arguments Break {St}. Arguments Continue {St}. Arguments Skip {St}.
Arguments exec {St}.

Declare Scope cmd_scope.
Notation "a ;; b" := (Seq a b) (at level 62, right associativity) : cmd_scope.
