(* Election: Election.__init__ (candidates, ballots, the "Add ..." log lines), Election.count()
   (reset, rule count, 'end' action, postCheck) and the rule table.  Definitions only. *)
From Coq Require Import ZArith List Bool String PArith.
From Droop Require Import Model.KernelBase Model.Str Model.Arith Model.Prelude Model.State Model.Prims
  Model.RulesGregory Model.RulesMeek.
Import ListNotations.
Open Scope string_scope.
Open Scope Z_scope.

(* a parsed profile, as Election.__init__ sees it *)
Record pcand := mkPcand { pc_cid : Z; pc_order : Z; pc_tie : Z; pc_name : string; pc_nick : string;
                          pc_withdrawn : bool; pc_undeclared : bool }.
Record profile := mkProfile {
  pr_nseats : Z; pr_nballots : Z;
  pr_cands : list pcand;                      (* every cid 1..nCand, ascending *)
  pr_ballots : list (Z * list Z);             (* (multiplier, ranking), withdrawn already stripped *)
  pr_eballots : list (Z * list (list Z))      (* ballots containing an equal ranking *)
}.

Inductive rule := RWigm | RWigmPrf | RScotland | RCfer | RMpls | RMeek | RMeekPrf | RQpq.

Inductive outcome (A : arith) :=
| Done (s : est A) (postcheck_ok : bool)
| Crashed (s : est A) (e : exn)
| OutOfFuel.
Arguments Done {A}. Arguments Crashed {A}. Arguments OutOfFuel {A}.

Section Election.
Variable A : arith.
Variable cfg : config.
Notation est := (est A).

Definition V0' := of_int A 0.

Definition init_cand (p : pcand) : cand A :=
  mkCand (pc_cid p) (pc_order p) (pc_tie p) (pc_name p) (pc_nick p) (pc_undeclared p)
         (if pc_withdrawn p then Withdrawn else Hopeful) None V0' None None V0'.

Definition init_state (pr : profile) : est :=
  let s0 : est := mkEst [] [] [] V0' V0' V0' V0' V0' 0 [] [] None false V0' 0 [] V0' V0' in
  (* C.add(c) in ascending cid order, each logging one line *)
  let s1 := fold_left (fun s p =>
      let c := init_cand p in
      let s' := set_cands s (cands s ++ [c])%list in
      log_msg A cfg ((if pc_withdrawn p then "Add withdrawn: "
                      else if pc_undeclared p then "Add undeclared: " else "Add eligible: ") ++ pc_name p) s')
      (pr_cands pr) s0 in
  let bs := flat_map (fun '(m, r) => match r with [] => [] | _ => [mkBallot (of_int A m) O (of_int A 1) V0' r] end)
                     (pr_ballots pr) in
  let ebs := flat_map (fun '(m, r) => match r with [] => [] | _ => [mkEBallot (of_int A m) V0' r] end)
                      (pr_eballots pr) in
  set_eballots (set_ballots s1 bs) ebs.

Definition rule_cmd (r : rule) : cmd est :=
  match r with
  | RWigm => wigm A cfg | RWigmPrf => wigm_prf A cfg | RScotland => scotland A cfg | RCfer => cfer A cfg
  | RMpls => mpls A cfg | RMeek => meek A cfg | RMeekPrf => meek_prf A cfg | RQpq => qpq A cfg
  end.

(* Election.count() up to and including the 'end' action *)
Definition count_cmd (r : rule) : cmd est :=
  Seq (Do (fun s => set_cands s (map (fun c => with_vote c V0') (cands s))))
      (Seq (rule_cmd r) (Do (log_action A cfg TEnd "Count Complete"))).

(* postCheck: nElected == nSeats or (nElected < nSeats and nElected == nEligible) *)
Definition post_check (s : est) : bool :=
  let ne := nlen (electeds A s) in
  let no_und := String.eqb (cf_rule cfg) "mpls" in      (* Rule.excludesUndeclared *)
  let electable := filter (fun c => negb (no_und && cundecl c)) (eligibles A s) in
  (ne =? cf_nseats cfg) || ((ne <? cf_nseats cfg) && (ne =? nlen electable)).

Definition run_count (fuel : positive) (r : rule) (pr : profile) : outcome A :=
  match exec (@crashed A) fuel (count_cmd r) (init_state pr) with
  | None => OutOfFuel
  | Some (s, _) =>
    match crash s with
    | Some e => Crashed s e
    | None => Done s (post_check s)
    end
  end.
End Election.
