(* DriverBase: the token type of the model's line protocol and the printing of
   exception names, shared by Driver.v and the per-driver files (DriverParse.v ...)
   so that those can be imported by Driver.v without a dependency cycle.
   Definitions only. *)
From Coq Require Import ZArith String.
From Droop Require Import Model.KernelBase.
Open Scope string_scope.
Open Scope Z_scope.

Inductive tok := TI (z : Z) | TS (s : string).

Definition exn_name (e : exn) : string :=
  match e with
  | ZeroDivisionError => "ZeroDivisionError" | ValueError => "ValueError" | IndexError => "IndexError"
  | TypeError => "TypeError" | AttributeError => "AttributeError" | AssertionError => "AssertionError"
  | KeyError => "KeyError" | UnboundLocalError => "UnboundLocalError" | OverflowError => "OverflowError"
  | NotImplementedErr => "NotImplementedError" | UsageError => "UsageError" | ElectionError => "ElectionError"
  | ElectionProfileError => "ElectionProfileError"
  | ArithmeticValuesError => "ArithmeticValuesError"
  end.
