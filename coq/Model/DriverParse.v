(* DriverParse: correspondence driver `parse`.
   Case:  parse <mode> <code point>*      mode 0 = ElectionProfile(data=text)
                                          mode 1 = ElectionProfile(path=...) (text = decoded file contents
                                                   before the utf-8-sig codec drops a leading U+FEFF)
                                          mode 2 = the token list only (tokenizer scope)
   Answer: "Raise <ExceptionName>" or every profile attribute, one per line, in a fixed order;
   strings are printed as their code points.  harness/parse_driver.py prints the same text from
   the implementation's ElectionProfile object.  Definitions only. *)
From Coq Require Import ZArith List Bool String Ascii.
From Droop Require Import Model.KernelBase Model.Str Model.DriverBase Model.Profile.
Import ListNotations.
Open Scope string_scope.
Open Scope Z_scope.

Definition nl : string := String (Ascii.ascii_of_nat 10) EmptyString.

Definition show_zs (l : list Z) : string := fold_right (fun c acc => " " ++ string_of_Z c ++ acc) "" l.
Definition show_opt (o : option ustr) : string :=
  match o with None => " none" | Some s => " some" ++ show_zs s end.
Definition show_lines {X} (f : X -> string) (l : list X) : string := fold_right (fun x acc => f x ++ nl ++ acc) "" l.
Definition show_ranks (r : list (list Z)) : string := fold_right (fun g acc => " |" ++ show_zs g ++ acc) "" r.

Definition show_profile (p : profile) : string :=
  "nCand " ++ string_of_Z (p_nCand p) ++ nl ++
  "nSeats " ++ string_of_Z (p_nSeats p) ++ nl ++
  "title" ++ show_zs (p_title p) ++ nl ++
  "source" ++ show_opt (p_source p) ++ nl ++
  "comment" ++ show_opt (p_comment p) ++ nl ++
  "nBallots " ++ string_of_Z (p_nBallots p) ++ nl ++
  "eligible" ++ show_zs (p_eligible p) ++ nl ++
  "withdrawn" ++ show_zs (p_withdrawn p) ++ nl ++
  "undeclared" ++ show_zs (p_undeclared p) ++ nl ++
  show_lines (fun '(c, n) => "name " ++ string_of_Z c ++ " :" ++ show_zs n) (p_candName p) ++
  show_lines (fun '(c, o) => "order " ++ string_of_Z c ++ " " ++ string_of_Z o) (p_candOrder p) ++
  show_lines (fun '(m, r) => "ballot " ++ string_of_Z m ++ " :" ++ show_zs r) (p_lines p) ++
  show_lines (fun '(m, r) => "eballot " ++ string_of_Z m ++ " :" ++ show_ranks r) (p_linesEq p) ++
  show_lines (fun '(c, o) => "tie " ++ string_of_Z c ++ " " ++ string_of_Z o) (p_tieOrder p) ++
  show_lines (fun '(c, n) => "nick " ++ string_of_Z c ++ " :" ++ show_zs n) (p_nickName p) ++
  show_lines (fun o => "option" ++ show_zs o) (p_options p) ++
  "end".

Definition show_parse (r : res profile) : string :=
  match r with
  | Ok p => show_profile p
  | Raise e => "Raise " ++ exn_name e
  end.

Fixpoint toks_zs (l : list tok) : list Z :=
  match l with [] => [] | TI z :: t => z :: toks_zs t | TS _ :: t => toks_zs t end.

Definition run_parse (l : list tok) : string :=
  match l with
  | TI 0 :: rest => show_parse (parse (toks_zs rest))
  | TI 1 :: rest => show_parse (parse_file (toks_zs rest))
  | TI 2 :: rest => show_lines (fun t => "tok" ++ show_zs t) (tokenize (toks_zs rest)) ++ "end"
  | _ => "badparse"
  end.
