(* State: candidates, ballots, the election state, recorded actions.  Definitions only. *)
From Coq Require Import ZArith List Bool String.
From Droop Require Import Model.KernelBase Model.Str Model.Arith Model.Prelude.
Import ListNotations.
Open Scope Z_scope.

Inductive cstate := Hopeful | Elected | Defeated | Withdrawn.
Definition cstate_eqb (a b : cstate) : bool :=
  match a, b with
  | Hopeful, Hopeful | Elected, Elected | Defeated, Defeated | Withdrawn, Withdrawn => true
  | _, _ => false
  end.

Inductive meth := MWigm | MMeek | MQpq.
Inductive tag := TBegin | TCount | TLog | TRound | TTie | TElect | TDefeat | TIterate | TUnpend | TTransfer | TEnd.

Section State.
Variable A : arith.
Notation V := (T A).

Record cand := mkCand {
  cid : Z; corder : Z; ctie : Z; cname : string; cnick : string; cundecl : bool;
  cst : cstate;
  cpend : option bool;       (* None until elect() is first called *)
  cvote : V;
  ckf : option V;            (* meek keep factor *)
  cquo : option V;           (* qpq quotient *)
  ctc : V                    (* qpq: candidates elected by contributing ballots *)
}.
Definition with_st (c : cand) (s : cstate) (p : option bool) : cand :=
  mkCand (cid c) (corder c) (ctie c) (cname c) (cnick c) (cundecl c) s p (cvote c) (ckf c) (cquo c) (ctc c).
Definition with_vote (c : cand) (v : V) : cand :=
  mkCand (cid c) (corder c) (ctie c) (cname c) (cnick c) (cundecl c) (cst c) (cpend c) v (ckf c) (cquo c) (ctc c).
Definition with_kf (c : cand) (k : option V) : cand :=
  mkCand (cid c) (corder c) (ctie c) (cname c) (cnick c) (cundecl c) (cst c) (cpend c) (cvote c) k (cquo c) (ctc c).
Definition with_quo (c : cand) (q : option V) : cand :=
  mkCand (cid c) (corder c) (ctie c) (cname c) (cnick c) (cundecl c) (cst c) (cpend c) (cvote c) (ckf c) q (ctc c).
Definition with_tc (c : cand) (t : V) : cand :=
  mkCand (cid c) (corder c) (ctie c) (cname c) (cnick c) (cundecl c) (cst c) (cpend c) (cvote c) (ckf c) (cquo c) t.

Record ballot := mkBallot {
  bmult : V;                 (* multiplier, as a value *)
  bidx : nat;                (* current ranking index *)
  bweight : V;
  bres : V;                  (* residual (meek) *)
  brank : list Z
}.
Definition with_bidx (b : ballot) (i : nat) : ballot := mkBallot (bmult b) i (bweight b) (bres b) (brank b).
Definition with_bweight (b : ballot) (w : V) : ballot := mkBallot (bmult b) (bidx b) w (bres b) (brank b).
Definition with_bres (b : ballot) (r : V) : ballot := mkBallot (bmult b) (bidx b) (bweight b) r (brank b).

(* meek ballots with equal rankings *)
Record eballot := mkEBallot { emult : V; eres : V; erank : list (list Z) }.

(* one recorded action *)
Record csnap := mkCsnap { sn_cid : Z; sn_st : cstate; sn_pend : option bool; sn_vote : V;
                          sn_kf : option V; sn_quo : option V }.
Record asnap := mkAsnap {
  as_c : list csnap;
  as_votes : V; as_quota : V;
  as_nt : option V;          (* wigm: nt_votes; meek: residual *)
  as_surplus : option V;
  as_ballots : list (nat * V)   (* (index, weight) of every ballot: observed by the harness, not in the record *)
}.
Record action := mkAction { a_tag : tag; a_msg : string; a_round : Z; a_snap : option asnap }.

Record est := mkEst {
  cands : list cand;            (* ascending cid: the iteration order of the Candidates set *)
  ballots : list ballot;
  eballots : list eballot;
  quota : V; surplus : V; votes : V;
  exhausted : V;                (* wigm family: E.exhausted *)
  residual : V;                 (* meek family: E.residual *)
  round : Z;
  rounds : list (list cand);    (* E.rounds: copies saved at each 'round' action, oldest first *)
  actions : list action;        (* newest first *)
  crash : option exn;
  (* rule-local variables that live across micro-operations *)
  lv_flag : bool;               (* qpq: restart; meek: "iteration elected somebody" *)
  lv_last : V;                  (* meek: lastsurplus *)
  lv_status : Z;                (* meek: iteration status code *)
  lv_batch : list Z;            (* meek: batch of cids to defeat *)
  lv_tx : V; lv_va : V          (* qpq *)
}.

Definition set_cands (s : est) (c : list cand) : est :=
  mkEst c (ballots s) (eballots s) (quota s) (surplus s) (votes s) (exhausted s) (residual s) (round s) (rounds s)
        (actions s) (crash s) (lv_flag s) (lv_last s) (lv_status s) (lv_batch s) (lv_tx s) (lv_va s).
Definition set_ballots (s : est) (b : list ballot) : est :=
  mkEst (cands s) b (eballots s) (quota s) (surplus s) (votes s) (exhausted s) (residual s) (round s) (rounds s)
        (actions s) (crash s) (lv_flag s) (lv_last s) (lv_status s) (lv_batch s) (lv_tx s) (lv_va s).
Definition set_eballots (s : est) (b : list eballot) : est :=
  mkEst (cands s) (ballots s) b (quota s) (surplus s) (votes s) (exhausted s) (residual s) (round s) (rounds s)
        (actions s) (crash s) (lv_flag s) (lv_last s) (lv_status s) (lv_batch s) (lv_tx s) (lv_va s).
Definition set_quota (s : est) (q : V) : est :=
  mkEst (cands s) (ballots s) (eballots s) q (surplus s) (votes s) (exhausted s) (residual s) (round s) (rounds s)
        (actions s) (crash s) (lv_flag s) (lv_last s) (lv_status s) (lv_batch s) (lv_tx s) (lv_va s).
Definition set_surplus (s : est) (x : V) : est :=
  mkEst (cands s) (ballots s) (eballots s) (quota s) x (votes s) (exhausted s) (residual s) (round s) (rounds s)
        (actions s) (crash s) (lv_flag s) (lv_last s) (lv_status s) (lv_batch s) (lv_tx s) (lv_va s).
Definition set_votes (s : est) (x : V) : est :=
  mkEst (cands s) (ballots s) (eballots s) (quota s) (surplus s) x (exhausted s) (residual s) (round s) (rounds s)
        (actions s) (crash s) (lv_flag s) (lv_last s) (lv_status s) (lv_batch s) (lv_tx s) (lv_va s).
Definition set_exhausted (s : est) (x : V) : est :=
  mkEst (cands s) (ballots s) (eballots s) (quota s) (surplus s) (votes s) x (residual s) (round s) (rounds s)
        (actions s) (crash s) (lv_flag s) (lv_last s) (lv_status s) (lv_batch s) (lv_tx s) (lv_va s).
Definition set_residual (s : est) (x : V) : est :=
  mkEst (cands s) (ballots s) (eballots s) (quota s) (surplus s) (votes s) (exhausted s) x (round s) (rounds s)
        (actions s) (crash s) (lv_flag s) (lv_last s) (lv_status s) (lv_batch s) (lv_tx s) (lv_va s).
Definition set_round (s : est) (r : Z) : est :=
  mkEst (cands s) (ballots s) (eballots s) (quota s) (surplus s) (votes s) (exhausted s) (residual s) r (rounds s)
        (actions s) (crash s) (lv_flag s) (lv_last s) (lv_status s) (lv_batch s) (lv_tx s) (lv_va s).
Definition set_rounds (s : est) (r : list (list cand)) : est :=
  mkEst (cands s) (ballots s) (eballots s) (quota s) (surplus s) (votes s) (exhausted s) (residual s) (round s) r
        (actions s) (crash s) (lv_flag s) (lv_last s) (lv_status s) (lv_batch s) (lv_tx s) (lv_va s).
Definition set_actions (s : est) (a : list action) : est :=
  mkEst (cands s) (ballots s) (eballots s) (quota s) (surplus s) (votes s) (exhausted s) (residual s) (round s) (rounds s)
        a (crash s) (lv_flag s) (lv_last s) (lv_status s) (lv_batch s) (lv_tx s) (lv_va s).
Definition set_crash (s : est) (e : exn) : est :=
  mkEst (cands s) (ballots s) (eballots s) (quota s) (surplus s) (votes s) (exhausted s) (residual s) (round s) (rounds s)
        (actions s) (match crash s with Some e0 => Some e0 | None => Some e end)
        (lv_flag s) (lv_last s) (lv_status s) (lv_batch s) (lv_tx s) (lv_va s).
Definition set_flag (s : est) (b : bool) : est :=
  mkEst (cands s) (ballots s) (eballots s) (quota s) (surplus s) (votes s) (exhausted s) (residual s) (round s) (rounds s)
        (actions s) (crash s) b (lv_last s) (lv_status s) (lv_batch s) (lv_tx s) (lv_va s).
Definition set_last (s : est) (x : V) : est :=
  mkEst (cands s) (ballots s) (eballots s) (quota s) (surplus s) (votes s) (exhausted s) (residual s) (round s) (rounds s)
        (actions s) (crash s) (lv_flag s) x (lv_status s) (lv_batch s) (lv_tx s) (lv_va s).
Definition set_status (s : est) (x : Z) : est :=
  mkEst (cands s) (ballots s) (eballots s) (quota s) (surplus s) (votes s) (exhausted s) (residual s) (round s) (rounds s)
        (actions s) (crash s) (lv_flag s) (lv_last s) x (lv_batch s) (lv_tx s) (lv_va s).
Definition set_batch (s : est) (x : list Z) : est :=
  mkEst (cands s) (ballots s) (eballots s) (quota s) (surplus s) (votes s) (exhausted s) (residual s) (round s) (rounds s)
        (actions s) (crash s) (lv_flag s) (lv_last s) (lv_status s) x (lv_tx s) (lv_va s).
Definition set_txva (s : est) (tx va : V) : est :=
  mkEst (cands s) (ballots s) (eballots s) (quota s) (surplus s) (votes s) (exhausted s) (residual s) (round s) (rounds s)
        (actions s) (crash s) (lv_flag s) (lv_last s) (lv_status s) (lv_batch s) tx va.

Definition crashed (s : est) : bool := match crash s with Some _ => true | None => false end.

(* ---- candidate selections, in set-iteration (ascending cid) order ---- *)
Definition in_state (st : cstate) (c : cand) : bool := cstate_eqb (cst c) st.
Definition is_pending (c : cand) : bool :=
  in_state Elected c && match cpend c with Some true => true | _ => false end.
Definition hopefuls (s : est) : list cand := filter (in_state Hopeful) (cands s).
Definition electeds (s : est) : list cand := filter (in_state Elected) (cands s).
Definition defeateds (s : est) : list cand := filter (in_state Defeated) (cands s).
Definition withdrawns (s : est) : list cand := filter (in_state Withdrawn) (cands s).
Definition eligibles (s : est) : list cand := filter (fun c => negb (in_state Withdrawn c)) (cands s).
Definition pendings (s : est) : list cand := filter is_pending (cands s).
Definition nlen {X} (l : list X) : Z := Z.of_nat (List.length l).

Definition find_cand (l : list cand) (i : Z) : option cand := find (fun c => cid c =? i) l.
Definition upd_cand (i : Z) (f : cand -> cand) (l : list cand) : list cand :=
  map (fun c => if cid c =? i then f c else c) l.
Definition upd (s : est) (i : Z) (f : cand -> cand) : est := set_cands s (upd_cand i f (cands s)).

(* ---- sorts (C.byVote, byTieOrder, byBallotOrder) ---- *)
Definition vote_key_lt (a b : cand) : bool :=
  if eqv A (cvote a) (cvote b) then corder a <? corder b else ltv A (cvote a) (cvote b).
Definition by_vote (reverse : bool) (l : list cand) : list cand := py_sorted vote_key_lt reverse l.
Definition by_tie (l : list cand) : list cand := py_sorted (fun a b => ctie a <? ctie b) false l.
Definition by_order (l : list cand) : list cand := py_sorted (fun a b => corder a <? corder b) false l.

Definition vsum (l : list V) : V := fold_left (add A) l (of_int A 0).

(* ---- ballots ---- *)
Definition top_rank (b : ballot) : option Z := nth_error (brank b) (bidx b).
Definition b_exhausted (b : ballot) : bool := Nat.leb (List.length (brank b)) (bidx b).
(* Ballot.vote: weight if multiplier == 1 else weight * multiplier *)
Definition bvote (b : ballot) : V :=
  if eqv A (bmult b) (of_int A 1) then bweight b else mulv A (bweight b) (bmult b).

End State.

Arguments mkCand {A}. Arguments mkBallot {A}. Arguments mkEBallot {A}. Arguments mkEst {A}.
Arguments mkAction {A}. Arguments mkAsnap {A}. Arguments mkCsnap {A}.
Arguments cid {A}.
Arguments corder {A}.
Arguments ctie {A}.
Arguments cname {A}.
Arguments cnick {A}.
Arguments cundecl {A}.
Arguments cst {A}.
Arguments cpend {A}.
Arguments cvote {A}.
Arguments ckf {A}.
Arguments cquo {A}.
Arguments ctc {A}.
Arguments bmult {A}.
Arguments bidx {A}.
Arguments bweight {A}.
Arguments bres {A}.
Arguments brank {A}.
Arguments emult {A}.
Arguments eres {A}.
Arguments erank {A}.
Arguments sn_cid {A}.
Arguments sn_st {A}.
Arguments sn_pend {A}.
Arguments sn_vote {A}.
Arguments sn_kf {A}.
Arguments sn_quo {A}.
Arguments as_c {A}.
Arguments as_votes {A}.
Arguments as_quota {A}.
Arguments as_nt {A}.
Arguments as_surplus {A}.
Arguments as_ballots {A}.
Arguments a_tag {A}.
Arguments a_msg {A}.
Arguments a_round {A}.
Arguments a_snap {A}.
Arguments cands {A}.
Arguments ballots {A}.
Arguments eballots {A}.
Arguments quota {A}.
Arguments surplus {A}.
Arguments votes {A}.
Arguments exhausted {A}.
Arguments residual {A}.
Arguments round {A}.
Arguments rounds {A}.
Arguments actions {A}.
Arguments crash {A}.
Arguments lv_flag {A}.
Arguments lv_last {A}.
Arguments lv_status {A}.
Arguments lv_batch {A}.
Arguments lv_tx {A}.
Arguments lv_va {A}.
Arguments with_st {A}.
Arguments with_vote {A}.
Arguments with_kf {A}.
Arguments with_quo {A}.
Arguments with_tc {A}.
Arguments with_bidx {A}.
Arguments with_bweight {A}.
Arguments with_bres {A}.
Arguments set_cands {A}.
Arguments set_ballots {A}.
Arguments set_eballots {A}.
Arguments set_quota {A}.
Arguments set_surplus {A}.
Arguments set_votes {A}.
Arguments set_exhausted {A}.
Arguments set_residual {A}.
Arguments set_round {A}.
Arguments set_rounds {A}.
Arguments set_actions {A}.
Arguments set_crash {A}.
Arguments set_flag {A}.
Arguments set_last {A}.
Arguments set_status {A}.
Arguments set_batch {A}.
Arguments set_txva {A}.
Arguments crashed {A}.
