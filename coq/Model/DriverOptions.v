(* DriverOptions: the `options` sub-driver of the extracted model (correspondence scope of C17 and
   C20).  Definitions only.

   Token grammar (TI = integer, TS = string):
     value  := 0 | 1 b | 2 z | 3 "s"                      None / bool / int / str
     dict   := n {"key" value}*n
     strs   := n {"s"}*n
     config := dict(cmd)  ( 0 dict(file layer)  |  1 strs(option strings of the ballot file) )
     "setup"  nprobes {num den}*  nhist {config}*  config
     "parse"  strs
     "int"    value
   Output of "setup": see [run_setup]; harness/options_driver.py renders the same text from the
   implementation. *)
From Coq Require Import ZArith QArith List Bool String Ascii.
From Droop Require Import Model.KernelBase Model.Str Model.Arith Gen.FixedKernels Gen.GuardedKernels
  Model.Options Model.ClassState Model.DriverBase.
Import ListNotations.
Open Scope string_scope.
Open Scope Z_scope.

(* ------------------------------------------------------------------ rendering *)
Definition hex_digit (n : nat) : ascii :=
  ascii_of_nat (if Nat.ltb n 10 then 48 + n else 87 + n).
Fixpoint hex_of (s : string) : string :=
  match s with
  | EmptyString => EmptyString
  | String c t => let n := nat_of_ascii c in
                  String (hex_digit (Nat.div n 16)) (String (hex_digit (Nat.modulo n 16)) (hex_of t))
  end.

Definition show_oval (v : oval) : string :=
  match v with
  | VNone => "N" | VBool true => "B1" | VBool false => "B0"
  | VInt z => "I" ++ string_of_Z z | VStr s => "S" ++ hex_of s
  end.
Definition show_ooval (v : option oval) : string := match v with None => "-" | Some x => show_oval x end.

Fixpoint join (sep : string) (l : list string) : string :=
  match l with [] => "" | [x] => x | x :: t => x ++ sep ++ join sep t end.

Definition show_dict {V} (sh : V -> string) (d : dict V) : string :=
  join ";" (map (fun k => k ++ "=" ++ match dget k d with Some v => sh v | None => "?" end) (sort_set (dkeys d))).
Definition show_tuple (l : list oval) : string := "(" ++ join "," (map show_oval l) ++ ")".

Definition lf1 : string := String (ascii_of_nat 10) EmptyString.

Definition known_keys : list string :=
  ["arithmetic"; "precision"; "guard"; "display"; "omega"; "integer_quota"; "defeat_batch"; "rule"; "path"].

Definition show_store (o : store) : string :=
  let keys := sort_set (known_keys ++ dkeys (o_cmd o) ++ dkeys (o_file o) ++ dkeys (o_default o) ++ dkeys (o_force o))%list in
  "cmd: " ++ show_dict show_oval (o_cmd o) ++ lf1 ++
  "file: " ++ show_dict show_oval (o_file o) ++ lf1 ++
  "default: " ++ show_dict show_oval (o_default o) ++ lf1 ++
  "force: " ++ show_dict show_oval (o_force o) ++ lf1 ++
  "allowed: " ++ show_dict show_tuple (o_allowed o) ++ lf1 ++
  "getopt: " ++ join ";" (map (fun k => k ++ "=" ++ show_oval (getopt o k)) keys) ++ lf1 ++
  "unused: " ++ join "," (unused o) ++ lf1 ++
  "overrides: " ++ join "," (overrides o) ++ lf1 ++
  "effective: " ++ show_dict show_oval (rec_options (record o)) ++ lf1.

Definition field_name (f : field) : string :=
  match f with
  | FxName => "Fixed.name" | FxInfo => "Fixed.info" | FxEpsilon => "Fixed.epsilon" | FxPrecision => "Fixed.precision"
  | FxDisplay => "Fixed.display" | FxScale => "Fixed.__scale" | FxDfmt => "Fixed.__dfmt" | FxScaled => "Fixed.__scaled"
  | FxScaledd => "Fixed.__scaledd" | FxScaledr => "Fixed.__scaledr"
  | GdPrecision => "Guarded.precision" | GdGuard => "Guarded.guard" | GdDisplay => "Guarded.display"
  | GdScale => "Guarded.__scale" | GdScalep => "Guarded.__scalep" | GdScaleg => "Guarded.__scaleg"
  | GdScaled => "Guarded.__scaled" | GdScaledd => "Guarded.__scaledd" | GdScaledr => "Guarded.__scaledr"
  | GdScaledg => "Guarded.__scaledg" | GdGeps => "Guarded.__geps" | GdMaxDiff => "Guarded.maxDiff"
  | GdMinDiff => "Guarded.minDiff" | GdDfmt => "Guarded.__dfmt" | GdInfo => "Guarded.info"
  | GdQuasiExact => "Guarded.quasi_exact" | GdExact => "Guarded.exact" | GdEpsilon => "Guarded.epsilon"
  | RtDp => "Rational.dp" | RtDps => "Rational._dps" | RtDpr => "Rational._dpr" | RtDfmt => "Rational._dfmt"
  end.

(* what the class body says before any initialize(): None, True, or no such attribute *)
Definition body_default (f : field) : string :=
  match f with
  | FxScaledd | GdScaledg | GdGeps | GdMaxDiff | GdMinDiff | GdEpsilon => "<unset>"
  | GdQuasiExact | GdExact => "B1"
  | _ => "N"
  end.

Definition show_fv (f : field) (v : fv) : string :=
  match v with
  | FZ z => match f with
            | FxEpsilon | GdEpsilon => "V" ++ string_of_Z z      (* a value object: raw _value *)
            | RtDpr => "1/" ++ string_of_Z z                       (* Fraction(1, z) *)
            | _ => "I" ++ string_of_Z z
            end
  | FS s => "S" ++ hex_of s
  | FB true => "B1" | FB false => "B0"
  | FO v => show_oval v
  | FFloat => "<float>"
  end.
Definition show_field (g : gstate) (f : field) : string :=
  field_name f ++ "=" ++ match g f with Some v => show_fv f v | None => body_default f end.

Definition acls_name (c : acls) : string :=
  match c with AFixed => "Fixed" | AGuarded => "Guarded" | ARational => "Rational" end.
Definition rulecls_name (k : rulecls) : string :=
  match k with
  | KWigm => "wigm" | KWigmPrf => "wigm_prf" | KCfer => "cfer" | KScotland => "scotland" | KMpls => "mpls"
  | KMeek => "meek" | KMeekPrf => "meek_prf" | KQpq => "qpq"
  end.
Definition showb01 (b : bool) : string := if b then "B1" else "B0".

(* name / info / exact / quasi_exact / epsilon of the class, as the rules and the record see them *)
Definition show_arith (c : acls) (g : gstate) : string :=
  "arith: cls=" ++ acls_name c ++
  match c with
  | AFixed => " name=" ++ hex_of (getS g FxName) ++ " info=" ++ hex_of (getS g FxInfo) ++
              " exact=B0 quasi_exact=B0 epsilon=V" ++ string_of_Z (getZ g FxEpsilon)
  | AGuarded => " name=" ++ hex_of "guarded" ++ " info=" ++ hex_of (getS g GdInfo) ++
                " exact=" ++ showb01 (getB g GdExact) ++ " quasi_exact=" ++ showb01 (getB g GdQuasiExact) ++
                " epsilon=" ++ (if getB g GdExact then "-" else "V" ++ string_of_Z (getZ g GdEpsilon))
  | ARational => " name=" ++ hex_of "rational" ++ " info=" ++ hex_of "rational arithmetic" ++
                 " exact=B1 quasi_exact=B0 epsilon=-"
  end ++ lf1.

Definition show_resZ_o (r : res Z) : string :=
  match r with Ok z => string_of_Z z | Raise e => "exn " ++ exn_name e end.

(* V(num) / V(den) and its str() in the class as it stands after the setup *)
Definition show_probe (c : acls) (g : gstate) (nd : Z * Z) : string :=
  let '(num, den) := nd in
  "probe " ++ string_of_Z num ++ "/" ++ string_of_Z den ++ ": " ++
  match c with
  | AFixed =>
      let st := fixed_cls_of g in
      match FixedKernels.dunder_truediv st (FixedKernels.init st (OInt num) false)
                                        (OVal (FixedKernels.init st (OInt den) false)) with
      | Ok r => "raw=" ++ string_of_Z r ++ " str=" ++ fixed_str st r
      | Raise e => "exn " ++ exn_name e
      end
  | AGuarded =>
      let st := guarded_cls_of g in
      match GuardedKernels.dunder_truediv st (GuardedKernels.init st (OInt num) false)
                                          (OVal (GuardedKernels.init st (OInt den) false)) with
      | Ok r => "raw=" ++ string_of_Z r ++ " str=" ++ guarded_str st r
      | Raise e => "exn " ++ exn_name e
      end
  | ARational =>
      match q_div (inject_Z num) (inject_Z den) with
      | Ok q => "raw=" ++ raw_repr (Rational 0) q ++ " str=" ++
                match g RtDp with
                | Some (FO (VInt d)) => rational_str d q
                | Some (FO (VBool false)) =>
                    (* dp = False: _dps = 10 ** False = 1 and _dfmt = "%d.%0Falsed", in which %0F is a valid
                       float conversion of the (always zero) fractional part: "<int>.0.000000alsed" *)
                    match rational_fmt 0 q with
                    | Fmt2 a _ => string_of_Z a ++ ".0.000000alsed"
                    | FmtNeg (Fmt2 a _) => "-" ++ string_of_Z a ++ ".0.000000alsed"
                    | _ => "?"
                    end
                | _ => "exn ValueError"     (* "%d.%0Trued" % ... : unsupported format character *)
                end
      | Raise e => "exn " ++ exn_name e
      end
  end ++ lf1.

Definition show_report (c : acls) (g : gstate) : string :=
  "report: " ++
  match c with
  | AGuarded => guarded_report (guarded_cls_of g) (string_of_Z (getZ g GdMaxDiff)) (string_of_Z (getZ g GdMinDiff))
  | _ => ""
  end ++ lf1.

Definition show_params (k : rulecls) (p : ruleparams) : string :=
  "rule: cls=" ++ rulecls_name k ++ " name=" ++ show_ooval (rp_name p) ++
  " integer_quota=" ++ show_ooval (rp_integer_quota p) ++ " defeat_batch=" ++ show_ooval (rp_defeat_batch p) ++
  " warren=" ++ show_ooval (rp_warren p) ++ " omega10=" ++ show_ooval (rp_omega10 p) ++ lf1.

(* ------------------------------------------------------------------ token readers *)
Definition rd_value (l : list tok) : option (oval * list tok) :=
  match l with
  | TI 0 :: t => Some (VNone, t)
  | TI 1 :: TI b :: t => Some (VBool (negb (b =? 0)), t)
  | TI 2 :: TI z :: t => Some (VInt z, t)
  | TI 3 :: TS s :: t => Some (VStr s, t)
  | _ => None
  end.
Fixpoint rd_n {X} (rd : list tok -> option (X * list tok)) (n : nat) (l : list tok) : option (list X * list tok) :=
  match n with
  | O => Some ([], l)
  | S k => match rd l with
           | Some (x, t) => match rd_n rd k t with Some (xs, t') => Some (x :: xs, t') | None => None end
           | None => None end
  end.
Definition rd_counted {X} (rd : list tok -> option (X * list tok)) (l : list tok) : option (list X * list tok) :=
  match l with TI n :: t => rd_n rd (Z.to_nat n) t | _ => None end.
Definition rd_kv (l : list tok) : option ((string * oval) * list tok) :=
  match l with
  | TS k :: t => match rd_value t with Some (v, t') => Some ((k, v), t') | None => None end
  | _ => None
  end.
Definition rd_dict (l : list tok) : option (dict oval * list tok) :=
  match rd_counted rd_kv l with Some (kvs, t) => Some (dict_of_list kvs, t) | None => None end.
Definition rd_s (l : list tok) : option (string * list tok) :=
  match l with TS s :: t => Some (s, t) | _ => None end.
Definition rd_nd (l : list tok) : option ((Z * Z) * list tok) :=
  match l with TI a :: TI b :: t => Some ((a, b), t) | _ => None end.

(* a configuration: the cmd dict and the ballot file's options, either as a dict handed to
   update(..., file_options=True) or as the option strings handed to parse() first *)
Inductive filespec := FDict (d : dict oval) | FStrs (l : list string).
Definition rd_config (l : list tok) : option ((dict oval * filespec) * list tok) :=
  match rd_dict l with
  | Some (cmd, TI 0 :: t) => match rd_dict t with Some (f, t') => Some ((cmd, FDict f), t') | None => None end
  | Some (cmd, TI 1 :: t) => match rd_counted rd_s t with Some (ss, t') => Some ((cmd, FStrs ss), t') | None => None end
  | _ => None
  end.

(* Options(cmd); options.update(options.parse(strings) | dict, file_options=True) *)
Definition build_store (c : dict oval * filespec) : res store * store :=
  let o := new_options (fst c) in
  match snd c with
  | FDict f => (Ok (update_dict o f true), o)
  | FStrs ss => match parse ss with
                | Ok f => (Ok (update_dict o f true), o)
                | Raise e => (Raise e, o)
                end
  end.

(* ------------------------------------------------------------------ setup cases *)
Definition run_one (c : dict oval * filespec) (g : gstate)
  : res (rulecls * ruleparams * acls) * store * gstate :=
  match build_store c with
  | (Ok o, _) => let r := election_setup (o, g) in (fst r, fst (snd r), snd (snd r))
  | (Raise e, o) => (Raise e, o, g)
  end.

Definition show_hist_outcome (i : nat) (r : res (rulecls * ruleparams * acls)) : string :=
  "hist " ++ string_of_Z (Z.of_nat i) ++ ": " ++
  match r with Ok (_, _, c) => "ok " ++ acls_name c | Raise e => "exn " ++ exn_name e end ++ lf1.

Fixpoint run_hist (i : nat) (h : list (dict oval * filespec)) (g : gstate) (acc : string) : string * gstate :=
  match h with
  | [] => (acc, g)
  | c :: t => let '(r, _, g') := run_one c g in run_hist (S i) t g' (acc ++ show_hist_outcome i r)
  end.

Definition run_setup (probes : list (Z * Z)) (h : list (dict oval * filespec)) (c : dict oval * filespec) : string :=
  let '(htxt, g1) := run_hist O h g_init "" in
  let '(r, o, g2) := run_one c g1 in
  htxt ++
  "outcome: " ++ match r with Ok _ => "ok" | Raise e => "exn " ++ exn_name e end ++ lf1 ++
  show_store o ++
  match r with
  | Ok (k, p, a) =>
      show_params k p ++ show_arith a g2 ++
      "read: " ++ join ";" (map (show_field g2) (filter (reads a g2) all_fields)) ++ lf1 ++
      fold_right (fun nd acc => show_probe a g2 nd ++ acc) "" probes ++
      show_report a g2
  | Raise _ => ""
  end ++
  "state: " ++ join ";" (map (show_field g2) all_fields).

Definition show_res_dict (r : res (dict oval)) : string :=
  match r with Ok d => "ok " ++ show_dict show_oval d | Raise e => "exn " ++ exn_name e end.

Definition run_options (l : list tok) : string :=
  match l with
  | TS "setup" :: t =>
      match rd_counted rd_nd t with
      | Some (probes, t1) =>
          match rd_counted rd_config t1 with
          | Some (h, t2) =>
              match rd_config t2 with
              | Some (c, _) => run_setup probes h c
              | None => "badconfig"
              end
          | None => "badhistory"
          end
      | None => "badprobes"
      end
  | TS "parse" :: t =>
      match rd_counted rd_s t with
      | Some (ss, _) => show_res_dict (parse ss)
      | None => "badstrs"
      end
  | TS "int" :: t =>
      match rd_value t with
      | Some (v, _) => "normalize=" ++ show_oval (normalize_val v) ++ " int=" ++ show_resZ_o (py_int v) ++
                       " str=" ++ hex_of (py_str v)
      | None => "badvalue"
      end
  | _ => "badoptionscase"
  end.
