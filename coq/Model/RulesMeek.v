(* RulesMeek: meek / warren (parametric), meek-prf, and qpq as command trees. *)
From Coq Require Import ZArith List Bool String.
From Droop Require Import Model.KernelBase Model.Str Model.Arith Model.Prelude Model.State Model.Prims.
Import ListNotations.
Open Scope string_scope.
Open Scope Z_scope.
Open Scope cmd_scope.

Section Rules.
Variable A : arith.
Variable cfg : config.
Notation V := (T A).
Notation est := (est A).
Notation cand := (cand A).
Notation ballot := (ballot A).
Notation cmd := (cmd est).

Let V0 := V0 A.
Let V1 := V1 A.
Let nseats := cf_nseats cfg.
Let nballots := cf_nballots cfg.
Let log := log_action A cfg.
Definition nonempty' {X} (l : list X) : bool := match l with [] => false | _ => true end.

(* status codes kept in lv_status *)
Definition IS_none := 0. Definition IS_omega := 1. Definition IS_batch := 2.
Definition IS_elected := 3. Definition IS_stable := 4. Definition IS_iterate := 5.
Definition status_name (z : Z) : string :=
  if z =? 1 then "omega" else if z =? 2 then "batch" else if z =? 3 then "elected"
  else if z =? 4 then "stable" else if z =? 5 then "iterate" else "none".

Definition count_complete_m (s : est) : bool :=
  (nlen (hopefuls A s) <=? seats_left A cfg s) || (seats_left A cfg s <=? 0).

(* omega = V1 / V(10**omega10) *)
Definition omega : res V := divv A V1 (of_int A (10 ^ cf_omega10 cfg)).
Definition omega_or0 : V := match omega with Ok o => o | Raise _ => V0 end.

Definition kf_truthy (c : cand) : bool := match ckf c with Some k => truth A k | None => false end.
Definition kf_of (c : cand) : V := match ckf c with Some k => k | None => V0 end.

Definition he_cands (s : est) : list cand := (hopefuls A s ++ electeds A s)%list.
Definition zero_he_votes (s : est) : est :=
  set_cands s (map (fun c => if in_state A Hopeful c || in_state A Elected c then with_vote c V0 else c) (cands s)).

(* keep, new weight *)
Definition kw_warren (kf w : V) : V * V :=
  let keep := if ltv A kf w then kf else w in (keep, sub A w keep).
Definition kw_meek (kf w : V) : V * V := (kmul A w kf false, kmul A w (sub A V1 kf) false).
Definition kt (kf w : V) : V * V := if cf_warren cfg then kw_warren kf w else kw_meek kf w.

(* one strict-ranking ballot: walk the ranking *)
Fixpoint dist_ballot (cs : list cand) (mult : V) (r : list Z) (w : V) (bres : V) : list cand * V * V :=
  match r with
  | [] => (cs, w, bres)
  | i :: t =>
    match find_cand A cs i with
    | Some c =>
      if kf_truthy c then
        let '(keep, w') := kt (kf_of c) w in
        let kv := mulv A keep mult in
        let cs' := upd_cand A i (fun c => with_vote c (add A (cvote c) kv)) cs in
        let bres' := sub A bres kv in
        if lev A w' V0 then (cs', w', bres') else dist_ballot cs' mult t w' bres'
      else dist_ballot cs mult t w bres
    | None => dist_ballot cs mult t w bres
    end
  end.

(* equal-ranking ballots: recursive descent *)
Fixpoint dist_eq (cset : list Z) (mult : V) (ranks : list (list Z)) (w : V) (st : res (list cand * V))
  : res (list cand * V) :=
  match st with
  | Raise e => Raise e
  | Ok (cs, bres) =>
    if negb (truth A w) then st else
    match ranks with
    | [] => st
    | rank :: deeper =>
      let cids := filter (fun i => existsb (Z.eqb i) cset) rank in
      match cids with
      | [] => st
      | _ =>
        match divv A w (of_int A (nlen cids)) with
        | Raise e => Raise e
        | Ok cw =>
          fold_left (fun st i =>
            match st with
            | Raise e => Raise e
            | Ok (cs, bres) =>
              match find_cand A cs i with
              | None => Raise KeyError
              | Some c =>
                let '(keep, w') := kt (kf_of c) cw in
                let kv := mulv A keep mult in
                let cs' := upd_cand A i (fun c => with_vote c (add A (cvote c) kv)) cs in
                dist_eq cset mult deeper w' (Ok (cs', sub A bres kv))
              end
            end) cids st
        end
      end
    end
  end.

Definition distribute_votes (s : est) : est :=
  let s0 := set_residual (zero_he_votes s) V0 in
  (* strict ballots *)
  let '(cs, res_, bs_rev) :=
    fold_left (fun '(cs, res_, acc) b =>
      let '(cs', w', br') := dist_ballot cs (bmult b) (brank b) V1 (bmult b) in
      (cs', add A res_ br', with_bres (with_bweight b w') br' :: acc))
      (ballots s0) (cands s0, V0, []) in
  let s1 := set_ballots (set_residual (set_cands s0 cs) res_) (rev bs_rev) in
  (* ballots with equal rankings *)
  fold_left (fun s eb =>
    if crashed s then s else
    let cset := map (@cid A) (he_cands s) in
    match dist_eq cset (emult eb) (erank eb) V1 (Ok (cands s, emult eb)) with
    | Raise e => set_crash s e
    | Ok (cs, br) => set_residual (set_cands s cs) (add A (residual s) br)
    end) (eballots s1) s1.

Definition meek_quota (s : est) : res V :=
  match divv A (votes s) (of_int A (nseats + 1)) with
  | Ok q => Ok (if exact A then q else add A q (epsilon A))
  | Raise e => Raise e
  end.
Definition set_quota_r (s : est) (q : res V) : est := match q with Ok q => set_quota s q | Raise e => set_crash s e end.

Definition elected_surplus (s : est) : V := vsum A (map (fun c => sub A (cvote c) (quota s)) (electeds A s)).

(* D.8 / B.2.f; [clamp]: meek.py keeps the factor from passing 1 (fix F12), the PRF reference rule prescribes the bare update *)
Definition update_kfs (clamp : bool) (s : est) : est :=
  fold_left (fun s c =>
    if crashed s then s else
    match kdiv A (kmul A (kf_of c) (quota s) true) (cvote c) true with
    | Ok k => let k' := if clamp && gtv A k V1 then V1 else k in upd A s (cid c) (fun c => with_kf c (Some k'))
    | Raise e => set_crash s e
    end) (electeds A s) s.

(* D.1 .. D.6 of one iteration *)
Definition meek_iter_head (s : est) : est :=
  let s1 := distribute_votes s in
  if crashed s1 then s1 else
  let s2 := set_votes s1 (vsum A (map (@cvote A) (he_cands s1))) in
  let s3 := set_quota_r s2 (meek_quota s2) in
  if crashed s3 then s3 else
  let winners := filter (has_quota_exact A s3) (hopefuls A s3) in
  let s4 := fold_left (fun s c => set_status (elect A cfg (cid c) "Elect" false s) IS_elected) winners s3 in
  set_surplus s4 (elected_surplus s4).

Definition meek_iterate : cmd :=
  Do (fun s => set_batch (set_last (set_status s IS_none) (of_int A nballots)) []) ;;
  While (fun _ => true) (
    Do meek_iter_head ;;
    Ite (fun s => lv_status s =? IS_elected) Break Skip ;;
    Ite (fun s => lev A (surplus s) omega_or0) (Do (fun s => set_status s IS_omega) ;; Break) Skip ;;
    Ite (fun s => gev A (surplus s) (lv_last s))
      (Do (fun s => set_status (log_msg A cfg ("Stable state detected (" ++ str A (surplus s) ++ ")") s) IS_stable) ;; Break)
      Skip ;;
    Do (fun s => set_batch s (if cf_batch cfg then map (@cid A) (batch_defeat A cfg (surplus s) s) else [])) ;;
    Ite (fun s => nonempty' (lv_batch s)) (Do (fun s => set_status s IS_batch) ;; Break) Skip ;;
    Do (fun s => update_kfs true (set_last s (surplus s)))).

Definition zero_cand (i : Z) (s : est) : est := upd A s i (fun c => with_vote (with_kf c (Some V0)) V0).

Definition cands_of' (s : est) (cids : list Z) : list cand :=
  flat_map (fun i => match find_cand A (cands s) i with Some c => [c] | None => [] end) cids.

Definition meek_defeat_batch (s : est) : est :=
  fold_left (fun s c =>
    if crashed s then s else
    distribute_votes (zero_cand (cid c) (defeat A cfg (cid c) "Defeat certain loser" s)))
    (by_order A (cands_of' s (lv_batch s))) s.

Definition low_within_surplus (s : est) : res (list cand) :=
  match map (@cvote A) (hopefuls A s) with
  | [] => Raise ValueError        (* dead: every call is guarded by "if C.hopeful():" *)
  | x :: l => let lv := vmin A x l in
              let lows := filter (fun c => gev A (add A lv (surplus s)) (cvote c)) (hopefuls A s) in
              (* a total surplus rounded below zero puts nobody within it of the lowest tally: the lowest themselves *)
              Ok (match lows with
                  | [] => filter (fun c => eqv A (cvote c) lv) (hopefuls A s)
                  | _ => lows
                  end)
  end.

Definition meek_defeat_low (tiefmt : string -> string -> string) (redistribute : bool) (s : est) : est :=
  match low_within_surplus s with
  | Raise e => set_crash s e
  | Ok lows =>
    match break_tie A cfg tiefmt lows s with
    | (s1, None) => s1
    | (s1, Some l) =>
      let msg := if lv_status s1 =? IS_omega then "Defeat (surplus " ++ str A (surplus s1) ++ " < omega)"
                 else "Defeat (stable surplus " ++ str A (surplus s1) ++ ")" in
      let s2 := zero_cand l (defeat A cfg l msg s1) in
      if crashed s2 then s2 else if redistribute then distribute_votes s2 else s2
    end
  end.

Definition meek_final (redistribute : bool) (s : est) : est :=
  let s1 := fold_left (fun s c =>
      if crashed s then s else
      let s' := if nlen (electeds A s) <? nseats then elect A cfg (cid c) "Elect remaining" false s
                else zero_cand (cid c) (defeat A cfg (cid c) "Defeat remaining" s) in
      if redistribute then distribute_votes s' else s') (hopefuls A s) s in
  let s2 := set_votes s1 (vsum A (map (@cvote A) (electeds A s1))) in
  set_residual s2 (sub A (of_int A nballots) (votes s2)).

Definition init_kfs (s : est) : est :=
  set_cands s (map (fun c => if in_state A Hopeful c then with_kf c (Some V1) else c) (cands s)).

(* round-0 reporting of first preferences *)
Definition meek_first_prefs (s : est) : est :=
  let s1 := fold_left (fun s b => match top_rank A b with
                                  | Some c => add_vote A c (bmult b) s
                                  | None => s end) (ballots s) s in
  fold_left (fun s eb =>
    if crashed s then s else
    match erank eb with
    | [] => set_crash s AttributeError
    | top :: _ =>
      match divv A V1 (of_int A (nlen top)) with
      | Raise e => set_crash s e
      | Ok q => let v := mulv A q (emult eb) in fold_left (fun s i => add_vote A i v s) top s
      end
    end) (eballots s1) s1.

Definition meek : cmd :=
  Do (fun s =>
        match omega with
        | Raise e => set_crash s e
        | Ok _ =>
          let s1 := set_votes s (of_int A nballots) in
          let s2 := set_quota_r s1 (meek_quota s1) in
          if crashed s2 then s2 else
          log TBegin "Begin Count" (meek_first_prefs (init_kfs s2))
        end) ;;
  While (fun s => negb (count_complete_m s)) (
    Do (new_round A cfg) ;;
    meek_iterate ;;
    Do (fun s => log TIterate ("Iterate (" ++ status_name (lv_status s) ++ ")") s) ;;
    Ite (fun s => lv_status s =? IS_elected) Continue Skip ;;
    Ite (fun s => lv_status s =? IS_batch) (Do meek_defeat_batch ;; Continue) Skip ;;
    Ite (fun s => nonempty' (hopefuls A s)) (Do (meek_defeat_low (tie_fmt "defeat") true)) Skip) ;;
  Do (meek_final true).

(* ------------------------------------------------------------------ meek-prf *)
Fixpoint dist_ballot_prf (cs : list cand) (mult : V) (r : list Z) (w : V) (bres : V) : list cand * V * V :=
  match r with
  | [] => (cs, w, bres)
  | i :: t =>
    match find_cand A cs i with
    | Some c =>
      if kf_truthy c then
        let kw := kmul A w (kf_of c) true in
        let kv := mulv A kw mult in
        let cs' := upd_cand A i (fun c => with_vote c (add A (cvote c) kv)) cs in
        let w' := sub A w kw in
        let bres' := sub A bres kv in
        if lev A w' V0 then (cs', w', bres') else dist_ballot_prf cs' mult t w' bres'
      else dist_ballot_prf cs mult t w bres
    | None => dist_ballot_prf cs mult t w bres
    end
  end.

Definition prf_distribute (s : est) : est :=
  let s0 := set_residual (zero_he_votes s) V0 in
  let '(cs, res_, bs_rev) :=
    fold_left (fun '(cs, res_, acc) b =>
      let '(cs', w', br') := dist_ballot_prf cs (bmult b) (brank b) V1 (bmult b) in
      (cs', add A res_ br', with_bres (with_bweight b w') br' :: acc))
      (ballots s0) (cands s0, V0, []) in
  set_ballots (set_residual (set_cands s0 cs) res_) (rev bs_rev).

Definition prf_quota (s : est) : res V :=
  match floordivv A (votes s) (of_int A (nseats + 1)) with
  | Ok q => Ok (add A q (epsilon A))
  | Raise e => Raise e
  end.

Definition prf_iterate_step (s : est) : est :=
  let s1 := prf_distribute s in
  let s2 := set_votes s1 (vsum A (map (@cvote A) (he_cands s1))) in
  let s3 := set_quota_r s2 (prf_quota s2) in
  if crashed s3 then s3 else
  let winners := filter (ge_quota A s3) (hopefuls A s3) in
  let s4 := fold_left (fun s c => set_status (elect A cfg (cid c) "Elect" false s) IS_elected) winners s3 in
  let sp := elected_surplus s4 in
  let s5 := set_surplus s4 (if ltv A sp V0 then V0 else sp) in
  let s6 :=
    if lv_status s5 =? IS_elected then s5
    else if ltv A (surplus s5) omega_or0 then set_status s5 IS_omega
    else if gev A (surplus s5) (lv_last s5) then
      log_msg A cfg ("Stable state detected (" ++ str A (surplus s5) ++ ")") (set_status s5 IS_stable)
    else s5 in
  if lv_status s6 =? IS_iterate then update_kfs false (set_last s6 (surplus s6)) else s6.

Definition meek_prf : cmd :=
  Do (fun s =>
        match omega with
        | Raise e => set_crash s e
        | Ok _ =>
          let s0 := init_kfs s in
          let s1 := set_votes s0 (of_int A nballots) in
          match divv A (votes s1) (of_int A (nseats + 1)) with
          | Raise e => set_crash s1 e
          | Ok q =>
            let s2 := set_quota s1 (add A q (epsilon A)) in
            let s3 := fold_left (fun s b => match top_rank A b with
                                            | Some c => add_vote A c (bmult b) s
                                            | None => set_crash s AttributeError end) (ballots s2) s2 in
            log TBegin "Begin Count" s3
          end
        end) ;;
  While (fun s => (seats_left A cfg s <? nlen (hopefuls A s)) && (0 <? seats_left A cfg s)) (
    Do (new_round A cfg) ;;
    Do (fun s => set_last (set_status s IS_iterate) (of_int A nballots)) ;;
    While (fun s => lv_status s =? IS_iterate) (Do prf_iterate_step) ;;
    Ite (fun s => lv_status s =? IS_elected) Continue Skip ;;
    Ite (fun s => nonempty' (hopefuls A s))
      (Do (meek_defeat_low (fun nm t => "Break tie (defeat low candidate): [" ++ nm ++ "] -> " ++ t) false)) Skip) ;;
  Do (meek_final false).

(* ------------------------------------------------------------------ qpq *)
Definition qpq_quota (s : est) : res V := divv A (lv_va s) (sub A (of_int A (1 + nseats)) (lv_tx s)).

Definition count_complete_q (s : est) : bool :=
  (seats_left A cfg s <=? 0) || (nlen (hopefuls A s) <=? seats_left A cfg s).

(* qpq transfer(): advance only *)
Definition qpq_advance (s : est) (b : ballot) : ballot :=
  with_bidx b (advance_from (cont_pred A (is_hopeful A) s) (skipn (bidx b) (brank b)) (bidx b)).

Definition qpq_restart (s : est) : est :=
  let s1 := fold_left (fun s c => unelect A (cid c) s) (electeds A s) s in
  set_ballots s1 (map (fun b => qpq_advance s1 (with_bres (with_bweight (with_bidx b O) V0) V0)) (ballots s1)).

Definition qpq_tally (s : est) : est :=
  let s0 := set_txva s V0 V0 in
  let s1 := set_cands s0 (map (fun c => if in_state A Hopeful c then with_tc (with_vote c V0) V0 else c) (cands s0)) in
  let s2 := fold_left (fun s b =>
      if b_exhausted A b then set_txva s (add A (lv_tx s) (mulv A (bweight b) (bmult b))) (lv_va s)
      else
        let s' := set_txva s (lv_tx s) (add A (lv_va s) (bmult b)) in
        match top_rank A b with
        | Some i => upd A s' i (fun c => with_vote (with_tc c (add A (ctc c) (mulv A (bweight b) (bmult b))))
                                                   (add A (cvote c) (bmult b)))
        | None => s'
        end) (ballots s1) s1 in
  let s3 := fold_left (fun s c =>
      if crashed s then s else
      match divv A (cvote c) (add A V1 (ctc c)) with
      | Ok q => upd A s (cid c) (fun c => with_quo c (Some q))
      | Raise e => set_crash s e
      end) (hopefuls A s2) s2 in
  if crashed s3 then s3 else set_quota_r s3 (qpq_quota s3).

Definition quo_of (c : cand) : V := match cquo c with Some q => q | None => V0 end.
Definition max_quo (l : list cand) : option V :=
  match l with
  | [] => None
  | c :: t => Some (fold_left (fun m y => if gtv A (quo_of y) m then quo_of y else m) t (quo_of c))
  end.
Definition min_quo (l : list cand) : option V :=
  match l with
  | [] => None
  | c :: t => Some (fold_left (fun m y => if ltv A (quo_of y) m then quo_of y else m) t (quo_of c))
  end.

Definition qpq_tie (reason : string) (nm t : string) : string :=
  "Break tie by lot (" ++ reason ++ "): [" ++ nm ++ "] -> " ++ t.

Definition qpq_step (s : est) : est :=
  match max_quo (hopefuls A s) with
  | None => set_crash s ValueError
  | Some hq =>
    if gtv A hq (quota s) then
      let highs := filter (fun c => eqv A (quo_of c) hq) (hopefuls A s) in
      match break_tie A cfg (qpq_tie "largest quotient") highs s with
      | (s1, None) => s1
      | (s1, Some h) =>
        let s2 := elect A cfg h "Elect high quotient" false s1 in
        if crashed s2 then s2 else
        match divv A V1 (match find_cand A (cands s2) h with Some c => quo_of c | None => V0 end) with
        | Raise e => set_crash s2 e
        | Ok nw =>
          let s3 := set_ballots s2 (map (fun b => if top_is A h b then qpq_advance s2 (with_bweight b nw) else b) (ballots s2)) in
          log TTransfer ("Transfer elected: " ++ cname_of A s3 h ++ " (" ++ str A hq ++ ")") s3
        end
      end
    else
      match min_quo (hopefuls A s) with
      | None => set_crash s ValueError
      | Some lq =>
        let lows := filter (fun c => eqv A (quo_of c) lq) (hopefuls A s) in
        match break_tie A cfg (qpq_tie "smallest quotient") lows s with
        | (s1, None) => s1
        | (s1, Some l) =>
          let s2 := defeat A cfg l "Defeat low quotient" s1 in
          if crashed s2 then s2 else
          let s3 := set_ballots s2 (map (fun b => if top_is A l b then qpq_advance s2 b else b) (ballots s2)) in
          set_flag (log TTransfer ("Transfer defeated: " ++ cname_of A s3 l) s3) true
        end
      end
  end.

Definition qpq : cmd :=
  Do (fun s =>
        let s1 := set_cands s (map (fun c => if in_state A Hopeful c then with_quo (with_tc c V0) (Some V0) else c) (cands s)) in
        let va := vsum A (map (@bmult A) (filter (fun b => negb (b_exhausted A b)) (ballots s1))) in
        let s2 := set_txva s1 V0 va in
        let s3 := set_quota_r s2 (qpq_quota s2) in
        if crashed s3 then s3 else
        let s4 := set_ballots s3 (map (fun b => with_bweight b V0) (ballots s3)) in
        log TBegin "Begin Count" (set_flag s4 true)) ;;
  While (fun s => negb (count_complete_q s)) (
    Do (new_round A cfg) ;;
    Ite (fun s => lv_flag s) (Do (fun s => qpq_restart (set_flag s false))) Skip ;;
    Do qpq_tally ;;
    Do qpq_step) ;;
  Ite (fun s => nlen (hopefuls A s) <=? seats_left A cfg s)
    (Do (fun s => fold_left (fun s c => elect A cfg (cid c) "Elect remaining candidates" false s) (hopefuls A s) s))
    Skip ;;
  Do (fun s => fold_left (fun s c => defeat A cfg (cid c) "Defeat remaining candidates" s) (hopefuls A s) s).

End Rules.
