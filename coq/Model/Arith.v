(* Arith: the arithmetic interface the rule models are written against, and its
   three instances.  Fixed and Guarded are *defined by* the kernels regenerated
   from /repo (Gen/*Kernels.v); Rational is Q kept reduced (fractions.Fraction is
   trusted, DESIGN §8).  Definitions only. *)
From Coq Require Import ZArith QArith Qround List Bool String.
From Droop Require Import Model.KernelBase Model.Str Gen.FixedKernels Gen.GuardedKernels.
Import ListNotations.
Open Scope Z_scope.

Definition unres {A} (d : A) (r : res A) : A := match r with Ok a => a | Raise _ => d end.

Record arith := {
  T : Type;
  of_int : Z -> T;
  add : T -> T -> T;
  sub : T -> T -> T;
  mulv : T -> T -> T;                       (* a * b      (value * value) *)
  divv : T -> T -> res T;                   (* a / b      (dunder_truediv) *)
  floordivv : T -> T -> res T;              (* a // b *)
  kmul : T -> T -> bool -> T;               (* V.mul(a, b, round='up' if flag else 'down') *)
  kdiv : T -> T -> bool -> res T;           (* V.div *)
  kmuldiv : T -> T -> T -> bool -> res T;   (* V.muldiv *)
  eqv : T -> T -> bool; ltv : T -> T -> bool; lev : T -> T -> bool;
  gtv : T -> T -> bool; gev : T -> T -> bool;
  truth : T -> bool;                        (* bool(v) *)
  vmin : T -> list T -> T;                  (* V.min(x :: l): the rules only call it on non-empty lists *)
  epsilon : T;                              (* V.epsilon (meaningful only when not exact) *)
  exact : bool;
  str : T -> string;                        (* str(v) *)
  raw_repr : T -> string                    (* canonical internal representation, for traces *)
}.

(* the rules pass the literal round='up' / round='down' only *)
Definition rnd_of (up : bool) : rnd := if up then RUp else RDown.

(* what the renderers (not the count) read from the arithmetic class *)
Record arith_meta := { aname : string; ainfo : string; areport : string -> string -> string }.

Definition nev (A : arith) (a b : T A) : bool := negb (eqv A a b).

(* ------------------------------------------------------------------ Fixed *)
(* initialize(): "if display < 0 or display > cls.precision: display = cls.precision" *)
Definition fixed_display (p d0 : Z) : Z := if (d0 <? 0) || (p <? d0) then p else d0.
Definition mk_fixed_cls (p d0 : Z) : fixed_cls :=
  let d := fixed_display p d0 in
  {| f_precision := p; f_display := d; f_scale := 10 ^ p; f_scaled := 10 ^ d;
     f_scaledd := 10 ^ (p - d); f_scaledr := 10 ^ (p - d) / 2 |}.

Definition fixed_str (st : fixed_cls) (v : Z) : string :=
  match FixedKernels.dunder_str st v with
  | Ok f => render_fmt (f_display st) 0 f
  | Raise _ => "<exception>"%string
  end.

Definition fixed_info (p d : Z) : string :=
  if p =? 0 then "integer arithmetic"%string
  else if negb (d =? p) then
    ("fixed-point decimal arithmetic (" ++ string_of_Z p ++ " places, " ++ string_of_Z d ++ " displayed)")%string
  else ("fixed-point decimal arithmetic (" ++ string_of_Z p ++ " places)")%string.

Definition Fixed (p d : Z) : arith :=
  let st := mk_fixed_cls p d in
  {| T := Z;
     of_int := fun n => FixedKernels.init st (OInt n) false;
     add := fun a b => unres 0 (FixedKernels.dunder_add st a (OVal b));
     sub := fun a b => unres 0 (FixedKernels.dunder_sub st a (OVal b));
     mulv := fun a b => unres 0 (FixedKernels.dunder_mul st a (OVal b));
     divv := fun a b => FixedKernels.dunder_truediv st a (OVal b);
     floordivv := fun a b => FixedKernels.dunder_floordiv st a (OVal b);
     kmul := fun a b up => unres 0 (FixedKernels.mul st (OVal a) (OVal b) (rnd_of up));
     kdiv := fun a b up => FixedKernels.div st (OVal a) (OVal b) (rnd_of up);
     kmuldiv := fun a b c up => FixedKernels.muldiv st (OVal a) (OVal b) (OVal c) (rnd_of up);
     eqv := fun a b => res_true (FixedKernels.dunder_eq st a (OVal b));
     ltv := fun a b => res_true (FixedKernels.dunder_lt st a (OVal b));
     lev := fun a b => res_true (FixedKernels.dunder_le st a (OVal b));
     gtv := fun a b => res_true (FixedKernels.dunder_gt st a (OVal b));
     gev := fun a b => res_true (FixedKernels.dunder_ge st a (OVal b));
     truth := fun a => res_true (FixedKernels.dunder_bool st a);
     vmin := fun x l => unres x (FixedKernels.min st (x :: l));
     epsilon := 1;
     exact := false;
     str := fixed_str st;
     raw_repr := string_of_Z |}.
Definition FixedMeta (p d : Z) : arith_meta :=
  {| aname := if p =? 0 then "integer"%string else "fixed"%string;
     ainfo := fixed_info p (fixed_display p d);
     areport := fun _ _ => EmptyString |}.

(* ---------------------------------------------------------------- Guarded *)
(* [stale] is whatever an earlier initialize() left in __scaledg; it is only
   assigned when display > precision (C20 proves it is only read then). *)
Definition mk_guarded_cls (p g d0 : Z) (stale : Z) : guarded_cls :=
  let d := if p + g <? d0 then p + g else d0 in
  let geps0 := 10 ^ g / 2 in
  {| g_precision := p; g_guard := g; g_display := d;
     g_scale := 10 ^ (p + g); g_scalep := 10 ^ p; g_scaleg := 10 ^ g;
     g_scaled := 10 ^ d; g_scaledd := 10 ^ (g + p - d); g_scaledr := 10 ^ (g + p - d) / 2;
     g_scaledg := if p <? d then 10 ^ (d - p) else stale;
     g_geps := if geps0 =? 0 then 1 else geps0 |}.

Definition guarded_str (st : guarded_cls) (v : Z) : string :=
  match GuardedKernels.dunder_str st v with
  | Ok f => if g_display st <=? g_precision st then render_fmt (g_display st) 0 f
            else render_fmt (g_precision st) (g_display st - g_precision st) f
  | Raise _ => "<exception>"%string
  end.

Definition guarded_info (p g d : Z) : string :=
  if negb (d =? p) then
    ("guarded-precision fixed-point decimal arithmetic (" ++ string_of_Z p ++ "+" ++ string_of_Z g ++
     " places; " ++ string_of_Z d ++ " displayed)")%string
  else ("guarded-precision fixed-point decimal arithmetic (" ++ string_of_Z p ++ "+" ++ string_of_Z g ++ " places)")%string.

Definition tab : string := String (Ascii.ascii_of_nat 9) EmptyString.
Definition nl : string := String (Ascii.ascii_of_nat 10) EmptyString.

Definition guarded_report (st : guarded_cls) (maxd mind : string) : string :=
  (tab ++ "maxDiff: " ++ maxd ++ "  (s/b << geps)" ++ nl ++
   tab ++ "geps:    " ++ string_of_Z (g_geps st) ++ nl ++
   tab ++ "minDiff: " ++ mind ++ "  (s/b >> geps)" ++ nl ++
   tab ++ "guard:   " ++ string_of_Z (g_scaleg st) ++ nl ++
   tab ++ "prec:    " ++ string_of_Z (g_scale st) ++ nl ++ nl)%string.

Definition Guarded (p g d stale : Z) : arith :=
  let st := mk_guarded_cls p g d stale in
  {| T := Z;
     of_int := fun n => GuardedKernels.init st (OInt n) false;
     add := fun a b => unres 0 (GuardedKernels.dunder_add st a (OVal b));
     sub := fun a b => unres 0 (GuardedKernels.dunder_sub st a (OVal b));
     mulv := fun a b => unres 0 (GuardedKernels.dunder_mul st a (OVal b));
     divv := fun a b => GuardedKernels.dunder_truediv st a (OVal b);
     floordivv := fun a b => GuardedKernels.dunder_floordiv st a (OVal b);
     kmul := fun a b up => unres 0 (GuardedKernels.mul st (OVal a) (OVal b) (rnd_of up));
     kdiv := fun a b up => GuardedKernels.div st (OVal a) (OVal b) (rnd_of up);
     kmuldiv := fun a b c up => GuardedKernels.muldiv st (OVal a) (OVal b) (OVal c) (rnd_of up);
     eqv := fun a b => res_true (GuardedKernels.dunder_eq st a (OVal b));
     ltv := fun a b => res_true (GuardedKernels.dunder_lt st a (OVal b));
     lev := fun a b => res_true (GuardedKernels.dunder_le st a (OVal b));
     gtv := fun a b => res_true (GuardedKernels.dunder_gt st a (OVal b));
     gev := fun a b => res_true (GuardedKernels.dunder_ge st a (OVal b));
     truth := fun a => res_true (GuardedKernels.dunder_bool st a);
     vmin := fun x l => unres x (GuardedKernels.min st (x :: l));
     epsilon := 1;
     exact := negb (g =? 0);
     str := guarded_str st;
     raw_repr := string_of_Z |}.
Definition GuardedMeta (p g d stale : Z) : arith_meta :=
  let st := mk_guarded_cls p g d stale in
  {| aname := "guarded"%string;
     ainfo := guarded_info p g (g_display st);
     areport := guarded_report st |}.

(* --------------------------------------------------------------- Rational *)
Open Scope Q_scope.
Definition qz (q : Q) : bool := (Qnum q =? 0)%Z.
Definition q_div (a b : Q) : res Q := if qz b then Raise ZeroDivisionError else Ok (Qred (a / b)).
Definition q_floordiv (a b : Q) : res Q :=
  if qz b then Raise ZeroDivisionError else Ok (inject_Z (Qfloor (a / b))).
Definition q_lt (a b : Q) : bool := match Qcompare a b with Lt => true | _ => false end.
Definition q_le (a b : Q) : bool := match Qcompare a b with Gt => false | _ => true end.

Definition rational_fmt (dp : Z) (q0 : Q) : fmt_args :=
  let q := Qred q0 in
  let dps := (10 ^ dp)%Z in
  let v := if ((Qnum q =? 0) || (Zpos (Qden q) =? 1))%Z then (Qnum q * dps)%Z
           else let w := Qred (q + Qred (1 # Z.to_pos (dps * 2))) in (Qnum w * dps / Zpos (Qden w))%Z in
  if (v <? 0)%Z then FmtNeg (Fmt2 ((- v) / dps)%Z ((- v) mod dps)%Z)
  else Fmt2 (v / dps)%Z (v mod dps)%Z.
Definition rational_str (dp : Z) (q : Q) : string := render_fmt dp 0 (rational_fmt dp q).

Definition Rational (dp : Z) : arith :=
  {| T := Q;
     of_int := fun n => inject_Z n;
     add := fun a b => Qred (a + b);
     sub := fun a b => Qred (a - b);
     mulv := fun a b => Qred (a * b);
     divv := q_div;
     floordivv := q_floordiv;
     kmul := fun a b _ => Qred (a * b);
     kdiv := fun a b _ => q_div a b;
     kmuldiv := fun a b c _ => q_div (Qred (a * b)) c;
     eqv := Qeq_bool;
     ltv := q_lt; lev := q_le;
     gtv := fun a b => q_lt b a; gev := fun a b => q_le b a;
     truth := fun a => negb (qz a);
     vmin := fun x l => unres x (py_min_by q_lt (x :: l));
     epsilon := 0;
     exact := true;
     str := rational_str dp;
     raw_repr := fun q => let r := Qred q in (string_of_Z (Qnum r) ++ "/" ++ string_of_Z (Zpos (Qden r)))%string |}.
Definition RationalMeta : arith_meta :=
  {| aname := "rational"%string; ainfo := "rational arithmetic"%string; areport := fun _ _ => EmptyString |}.
