(* DriverRender: sub-driver `render`.  Input = header tokens, then the tokens of a count case
   (starting with the string token "count"); output = report text, dump text and JSON text of the
   model's record, separated by marker lines.  Definitions only.

   render intr title droop_name droop_version rule_info arith_info
          nunused {name}* noverridden {name}* quota_name
          has_omega omega has_source source has_comment comment maxdiff mindiff
          <options as a JSON tree>  count <count case>
   JSON tree tokens (prefix form): 0 = null | 1 b = bool | 2 z = int | 3 "s" = string
          | 4 n item^n = list | 5 n {"key" item}^n = object *)
From Coq Require Import ZArith QArith List Bool String Ascii.
From Coq Require Import PArith.
From Droop Require Import Model.KernelBase Model.Str Model.Arith Gen.FixedKernels Gen.GuardedKernels
  Model.Prelude Model.State Model.Prims Model.RulesGregory Model.RulesMeek Model.Election
  Model.DriverBase Model.CountCase Model.Record.
Import ListNotations.
Open Scope string_scope.
Open Scope Z_scope.

Fixpoint rd_strs (n : nat) (l : list tok) : option (list string * list tok) :=
  match n with
  | O => Some ([], l)
  | S k => match rd_str l with
           | Some (x, t) => match rd_strs k t with Some (xs, t') => Some (x :: xs, t') | None => None end
           | None => None end
  end.

(* fuel: the number of tokens bounds the size of the tree *)
Fixpoint rd_json (fuel : nat) (l : list tok) : option (json * list tok) :=
  match fuel with
  | O => None
  | S f =>
    match l with
    | TI 0 :: t => Some (JNull, t)
    | TI 1 :: TI b :: t => Some (JBool (negb (b =? 0)), t)
    | TI 2 :: TI z :: t => Some (JInt z, t)
    | TI 3 :: TS x :: t => Some (JStr x, t)
    | TI 4 :: TI n :: t =>
      (fix items (k : nat) (l : list tok) : option (json * list tok) :=
         match k with
         | O => Some (JList [], l)
         | S k' => match rd_json f l with
                   | Some (x, t1) => match items k' t1 with
                                     | Some (JList xs, t2) => Some (JList (x :: xs), t2)
                                     | _ => None end
                   | None => None end
         end) (Z.to_nat n) t
    | TI 5 :: TI n :: t =>
      (fix items (k : nat) (l : list tok) : option (json * list tok) :=
         match k with
         | O => Some (JObj [], l)
         | S k' => match l with
                   | TS key :: l1 =>
                     match rd_json f l1 with
                     | Some (x, t1) => match items k' t1 with
                                       | Some (JObj xs, t2) => Some (JObj ((key, x) :: xs), t2)
                                       | _ => None end
                     | None => None end
                   | _ => None end
         end) (Z.to_nat n) t
    | _ => None
    end
  end.

Definition rd_opt_str (l : list tok) : option (option string * list tok) :=
  match l with
  | TI b :: TS x :: t => Some ((if b =? 0 then None else Some x), t)
  | _ => None
  end.

(* (intr, header, rest) *)
Definition rd_header (l : list tok) : option (bool * header * list tok) :=
  match l with
  | TI intr :: TS title :: TS dn :: TS dv :: TS ri :: TS ai :: TI nu :: t0 =>
    match rd_strs (Z.to_nat nu) t0 with
    | Some (unused, TI no :: t1) =>
      match rd_strs (Z.to_nat no) t1 with
      | Some (over, TS qn :: t2) =>
        match rd_opt_str t2 with
        | Some (omega, t3) =>
          match rd_opt_str t3 with
          | Some (src, t4) =>
            match rd_opt_str t4 with
            | Some (com, TS maxd :: TS mind :: t5) =>
              match rd_json (S (List.length t5)) t5 with
              | Some (opts, t6) =>
                Some (negb (intr =? 0), mkHeader title dn dv ri ai unused over qn omega src com maxd mind opts, t6)
              | None => None end
            | _ => None end
          | None => None end
        | None => None end
      | _ => None end
    | _ => None end
  | _ => None
  end.

Definition mark_report : string := "=== RENDER-REPORT ===" ++ nl.
Definition mark_dump : string := "=== RENDER-DUMP ===" ++ nl.
Definition mark_json : string := "=== RENDER-JSON ===" ++ nl.

Definition show_render (A : arith) (M : arith_meta) (cfg : config) (h : header) (intr : bool) (o : outcome A) : string :=
  match o with
  | OutOfFuel => "X OutOfFuel"
  | Crashed s _ | Done s _ =>
    String.concat "" [mark_report; report_text A M cfg h intr s; mark_dump; dump_text A cfg s; mark_json; json_text A M cfg h s]
  end.

Definition run_render (l : list tok) : string :=
  match rd_header l with
  | None => "badheader"
  | Some (intr, h, TS "count" :: rest) =>
    match parse_count_case rest with
    | inl e => e
    | inr c =>
      let r := cc_rule c in let cfg := cc_cfg c in let fuel := cc_fuel c in let pr := cc_profile c in
      let p := cc_p c in let g := cc_g c in let d := cc_d c in let stale := cc_stale c in
      if cc_ar c =? 0 then show_render (Fixed p d) (FixedMeta p d) cfg h intr (run_count (Fixed p d) cfg fuel r pr)
      else if cc_ar c =? 1 then
        show_render (Guarded p g d stale) (GuardedMeta p g d stale) cfg h intr (run_count (Guarded p g d stale) cfg fuel r pr)
      else show_render (Rational d) RationalMeta cfg h intr (run_count (Rational d) cfg fuel r pr)
    end
  | Some _ => "badheader-count"
  end.
