(* ProfileSpec: the vocabulary in which C15 / C16 are stated.  Definitions only.
   - valid_profile: the invariants of a valid election (what C16 says every accepted profile has);
   - abstract elections, their normal form, and the family of token sequences / layouts that
     render them (what C15 quantifies over). *)
From Coq Require Import ZArith String Ascii List Bool.
From Droop Require Import Model.KernelBase Model.Str Gen.UnicodeTables Model.Profile.
Import ListNotations.
Open Scope Z_scope.

(* ------------------------------------------------------------------ valid_profile *)
Definition in_range (n c : Z) : Prop := 1 <= c <= n.

(* an unequal ballot line: multiplier >= 1, non-empty ranking of distinct, in-range, non-withdrawn candidates *)
Definition line_ok (n : Z) (w : list Z) (bl : Z * list Z) : Prop :=
  1 <= fst bl /\ snd bl <> [] /\ Forall (fun c => in_range n c /\ ~ In c w) (snd bl).
(* an equal-ranking line: the same for the concatenation of its rank groups; no empty group; some group has >1 member *)
Definition eline_ok (n : Z) (w : list Z) (bl : Z * list (list Z)) : Prop :=
  1 <= fst bl /\ snd bl <> [] /\ Forall (fun g => g <> []) (snd bl) /\
  Forall (Forall (fun c => in_range n c /\ ~ In c w)) (snd bl) /\
  Exists (fun g => (1 < List.length g)%nat) (snd bl).
Definition sum_mult {X} (l : list (Z * X)) : Z := fold_right (fun bl acc => fst bl + acc) 0 l.

Record valid_profile (p : profile) : Prop := {
  vp_seats : 1 <= p_nSeats p <= Z.of_nat (List.length (p_eligible p));
  vp_enough_ballots : Z.of_nat (List.length (p_eligible p)) <= p_nBallots p;
  vp_eligible : forall c, In c (p_eligible p) <-> in_range (p_nCand p) c /\ ~ In c (p_withdrawn p);
  vp_eligible_nodup : NoDup (p_eligible p);
  vp_withdrawn : Forall (in_range (p_nCand p)) (p_withdrawn p);
  vp_undeclared : Forall (in_range (p_nCand p)) (p_undeclared p);
  vp_lines : Forall (line_ok (p_nCand p) (p_withdrawn p)) (p_lines p);
  vp_lines_nodup : Forall (fun bl => NoDup (snd bl)) (p_lines p);
  vp_linesEq : Forall (eline_ok (p_nCand p) (p_withdrawn p)) (p_linesEq p);
  vp_linesEq_nodup : Forall (fun bl => NoDup (concat (snd bl))) (p_linesEq p);
  vp_total : p_nBallots p = sum_mult (p_lines p) + sum_mult (p_linesEq p);
  vp_names : map fst (p_candName p) = cids_upto (p_nCand p);
  vp_order : p_candOrder p = map (fun c => (c, c)) (cids_upto (p_nCand p));
  vp_tie : map fst (p_tieOrder p) = cids_upto (p_nCand p) /\ NoDup (map snd (p_tieOrder p));
  vp_nick : map fst (p_nickName p) = cids_upto (p_nCand p) /\ NoDup (map snd (p_nickName p))
}.

(* the number of candidates a text declares (its first token read as a decimal number) *)
Definition declared_ncand (text : ustr) : Z :=
  match tokenize text with t :: _ => int_of_digits t | [] => 0 end.

(* ------------------------------------------------------------------ layouts (C15, tokenizer level) *)
(* A layout of a sequence of raw tokens: every token is preceded by a separator; one more separator
   follows the last token.  Separators are arbitrary strings of Unicode whitespace (str.isspace,
   which includes every str.splitlines boundary); all but the first must be non-empty. *)
Definition is_token (t : ustr) : Prop := t <> [] /\ Forall (fun c => is_space c = false) t.
Definition is_ws (s : ustr) : Prop := Forall (fun c => is_space c = true) s.
Fixpoint layout_ok (first : bool) (l : list (ustr * ustr)) : Prop :=
  match l with
  | [] => True
  | (s, t) :: r => is_ws s /\ (first = true \/ s <> []) /\ is_token t /\ layout_ok false r
  end.
Definition layout_text (l : list (ustr * ustr)) (trail : ustr) : ustr :=
  concat (map (fun st => fst st ++ snd st) l) ++ trail.

(* the raw tokens of a text: line.split() of every line of blob.splitlines(), in order *)
Definition raw_tokens (text : ustr) : list ustr := concat (map split_ws (splitlines text)).

(* no token of the sequence is taken as the start of a # comment (running __bltBlob's state machine
   from inComment = ic, inQuote = iq) *)
Fixpoint hash_free (toks : list ustr) (ic : Z) (iq : bool) : Prop :=
  match toks with
  | [] => True
  | t :: rest => match tok_step t ic iq with
                 | (TBreak, _, _) => False
                 | (_, ic', iq') => hash_free rest ic' iq'
                 end
  end.
(* __bltBlob on a sequence of raw tokens all on one line *)
Definition tok_flat (toks : list ustr) : list ustr := fst (fst (tok_line toks 0 false)).

(* a run of tokens inside /* */ comments: starting at nesting depth d (inQuote false), every token is
   skipped and the run ends at depth Some d'; None = some token of the run would not be skipped *)
Fixpoint comment_run (blk : list ustr) (d : Z) : option Z :=
  match blk with
  | [] => Some d
  | t :: r =>
    let d1 := if starts_with [cSLASH; cSTAR] t then d + 1 else d in
    if d1 <=? 0 then None
    else comment_run r (if ends_with [cSTAR; cSLASH] t then d1 - 1 else d1)
  end.

(* ------------------------------------------------------------------ abstract elections (C15, token level) *)
(* The core of the format: counts, withdrawn candidates given as -n, ballots with multipliers and
   (possibly equal) rankings by candidate number, quoted names / title / source / comment.
   Options in brackets, nicknames and ballot ids are outside this core (see Props/C15.v). *)
Record election := mkElection {
  e_nCand : Z; e_nSeats : Z;
  e_withdrawn : list Z;                      (* as listed in the file *)
  e_ballots : list (Z * list (list Z));      (* multiplier; ranking as groups of equally ranked candidates *)
  e_names : list (list ustr);                (* each name as its blank-separated words *)
  e_title : list ustr; e_source : option (list ustr); e_comment : option (list ustr)
}.

(* a decimal token denoting v: any non-empty string of Unicode decimal digits (any script, leading
   zeros) within int()'s digit limit *)
Definition denotes (d : ustr) (v : Z) : Prop :=
  all_digits d = true /\ int_of_digits d = v /\ Z.of_nat (List.length d) <= int_max_str_digits.

(* words of a quoted string: non-empty, free of the double quote; [] is the empty string *)
Definition word_ok (w : ustr) : Prop := w <> [] /\ ~ In cQUOTE w.
Fixpoint join_sp (ws : list ustr) : ustr :=
  match ws with [] => [] | [w] => w | w :: r => w ++ cSP :: join_sp r end.
Fixpoint add_close (ws : list ustr) : list ustr :=
  match ws with [] => [] | [w] => [w ++ [cQUOTE]] | w :: r => w :: add_close r end.
Definition quoted_tokens (ws : list ustr) : list ustr :=
  match ws with [] => [[cQUOTE; cQUOTE]] | w :: r => add_close ((cQUOTE :: w) :: r) end.

Fixpoint join_eq (ds : list ustr) : ustr :=
  match ds with [] => [] | [d] => d | d :: r => d ++ cEQ :: join_eq r end.
(* tokens of one ballot line: multiplier, one token per rank group (numbers joined by =), "0" *)
Definition group_token (tok : ustr) (g : list Z) : Prop :=
  exists ds, Forall2 denotes ds g /\ tok = join_eq ds.
Definition ballot_tokens (toks : list ustr) (b : Z * list (list Z)) : Prop :=
  exists dm gtoks, denotes dm (fst b) /\ Forall2 group_token gtoks (snd b) /\ toks = dm :: gtoks ++ [[cZERO]].

Definition opt_quoted (o : option (list ustr)) : list ustr :=
  match o with None => [] | Some ws => quoted_tokens ws end.

(* [renders_with e junk toks]: toks is one of the token sequences that present e, followed by the
   tokens junk (the choices: which digits spell each number) *)
Definition renders_with (e : election) (junk toks : list ustr) : Prop :=
  exists dn ds wds btoks dz,
    denotes dn (e_nCand e) /\ denotes ds (e_nSeats e) /\ Forall2 denotes wds (e_withdrawn e) /\
    Forall2 ballot_tokens btoks (e_ballots e) /\ denotes dz 0 /\
    toks = dn :: ds :: map (fun d => cMINUS :: d) wds ++ concat btoks ++ dz ::
           concat (map quoted_tokens (e_names e)) ++ quoted_tokens (e_title e) ++
           opt_quoted (e_source e) ++ opt_quoted (e_comment e) ++ junk.
(* what may follow the last string: anything after a comment string, otherwise unquoted material *)
Definition junk_ok (e : election) (junk : list ustr) : Prop :=
  match junk with [] => True | j :: _ => e_comment e <> None \/ starts_with [cQUOTE] j = false end.
Definition renders (e : election) (toks : list ustr) : Prop :=
  exists junk, junk_ok e junk /\ renders_with e junk toks.

(* normal form: withdrawn candidates stripped from every ranking, emptied rank groups and emptied
   ballots dropped, ballot total = sum of the kept multipliers *)
Definition strip_w (w : list Z) (g : list Z) : list Z := filter (fun c => negb (zmem c w)) g.
Definition nonempty {X} (l : list X) : bool := match l with [] => false | _ => true end.
Fixpoint norm_ballots (w : list Z) (bs : list (Z * list (list Z)))
  : Z * list (Z * list Z) * list (Z * list (list Z)) :=
  match bs with
  | [] => (0, [], [])
  | (m, groups) :: r =>
    let '(tot, ls, es) := norm_ballots w r in
    let stripped := map (strip_w w) groups in
    match filter nonempty stripped with
    | [] => (tot, ls, es)
    | gs => if existsb (fun g => 1 <? Z.of_nat (List.length g)) stripped
            then (m + tot, ls, (m, gs) :: es)
            else (m + tot, (m, map (fun g => hd 0 g) gs) :: ls, es)
    end
  end.
Definition wset (l : list Z) : list Z := fold_left (fun acc c => zset_add c acc) l [].

Definition norm (e : election) : profile :=
  let w := wset (e_withdrawn e) in
  let '(tot, ls, es) := norm_ballots w (e_ballots e) in
  let cids := cids_upto (e_nCand e) in
  mkProfileP (e_nCand e) (e_nSeats e)
    (strip_c cSP (join_sp (e_title e)))
    (option_map (fun ws => strip_c cSP (join_sp ws)) (e_source e))
    (option_map (fun ws => strip_c cSP (join_sp ws)) (e_comment e))
    tot (filter (fun c => negb (zmem c w)) cids) w []
    (combine cids (map join_sp (e_names e))) (map (fun c => (c, c)) cids)
    ls es (map (fun c => (c, c)) cids) (map (fun c => (c, ustr_of_Z c)) cids) [].

(* e is an election the format can carry and the reader accepts *)
Record valid_election (e : election) : Prop := {
  ve_ncand : e_nCand e = Z.of_nat (List.length (e_names e));
  ve_withdrawn : Forall (in_range (e_nCand e)) (e_withdrawn e) /\ NoDup (e_withdrawn e);
  ve_ballots : Forall (fun b => 1 <= fst b /\ Forall (fun g => g <> [] /\ Forall (in_range (e_nCand e)) g) (snd b))
                      (e_ballots e);
  ve_small : e_nCand e < 18446744073709551616;
  ve_names : Forall (Forall word_ok) (e_names e);
  ve_title : Forall word_ok (e_title e);
  ve_source : match e_source e with Some ws => Forall word_ok ws | None => e_comment e = None end;
  ve_comment : match e_comment e with Some ws => Forall word_ok ws | None => True end;
  (* what __validate demands of the normal form *)
  ve_seats : 1 <= e_nSeats e <= Z.of_nat (List.length (p_eligible (norm e)));
  ve_enough : Z.of_nat (List.length (p_eligible (norm e))) <= p_nBallots (norm e);
  ve_nodup : Forall (fun bl => NoDup (snd bl)) (p_lines (norm e));
  ve_nodupEq : Forall (fun bl => NoDup (concat (snd bl))) (p_linesEq (norm e))
}.

(* ------------------------------------------------------------------ concrete texts for the Examples *)
Definition nl_cp : ustr := [10].
(* the shortest kind of valid file *)
Definition ex_plain : ustr := ustr_of_string "2 1 1 1 0 1 2 0 0 ""a"" ""b"" ""t""".
(* comments (# and nested /* */), nicknames, a withdrawn candidate, an equal ranking, names containing
   comment markers and blanks, a non-ASCII name (U+00E9), a ballot emptied by the withdrawal *)
Definition ex_rich : ustr :=
  ustr_of_string "3 2 # three candidates" ++ nl_cp ++
  ustr_of_string "[nick a b c] -3 /* nested /* comment */ here */" ++ nl_cp ++
  ustr_of_string "2 a=b c 0" ++ nl_cp ++
  ustr_of_string "1 b 0 1 c 0 0" ++ nl_cp ++
  ustr_of_string """Ann A"" ""Bob #1"" ""Cy" ++ [233] ++ ustr_of_string """ ""Title /* x */"" ""src""".
Definition ex_rich_profile : profile :=
  mkProfileP 3 2 (ustr_of_string "Title /* x */") (Some (ustr_of_string "src")) None 3 [1; 2] [3] []
             [(1, ustr_of_string "Ann A"); (2, ustr_of_string "Bob #1"); (3, ustr_of_string "Cy" ++ [233])]
             [(1, 1); (2, 2); (3, 3)]
             [(1, [2])] [(2, [[1; 2]])]
             [(1, 1); (2, 2); (3, 3)]
             [(1, ustr_of_string "a"); (2, ustr_of_string "b"); (3, ustr_of_string "c")] [].
(* the text on which the current reader fails with OverflowError (array typecode L, candidate 2^64) *)
Definition ex_overflow : ustr := ustr_of_string "100000000000000000000 1 1 18446744073709551616 0 0".
(* malformed texts *)
Definition ex_truncated : ustr := ustr_of_string "2 1 1 1 0 0 ""a""".
Definition ex_bad_withdrawn : ustr := ustr_of_string "2 1 -9 1 1 0 1 2 0 0 ""a"" ""b"" ""t""".

(* an abstract election of the core format, one of its token renderings, and its normal form *)
Definition ex_election : election :=
  mkElection 3 2 [3]
    [(2, [[1; 2]; [3]]); (1, [[2]]); (1, [[3]])]
    [[ustr_of_string "Ann"; ustr_of_string "A"]; [ustr_of_string "Bob"; ustr_of_string "#1"]; [ustr_of_string "Cy" ++ [233]]]
    [ustr_of_string "Title"; ustr_of_string "/*"; ustr_of_string "x"; ustr_of_string "*/"]
    (Some [ustr_of_string "src"]) None.
Definition ex_election_tokens : list ustr :=
  map ustr_of_string ["3"; "02"; "-3"; "2"; "1=2"; "3"; "0"; "1"; "2"; "0"; "01"; "3"; "0"; "00"]%string ++
  [ustr_of_string """Ann"; ustr_of_string "A"""; ustr_of_string """Bob"; ustr_of_string "#1""";
   ustr_of_string """Cy" ++ [233; 34];
   ustr_of_string """Title"; ustr_of_string "/*"; ustr_of_string "x"; ustr_of_string "*/""";
   ustr_of_string """src"""].
Definition ex_election_profile : profile :=
  mkProfileP 3 2 (ustr_of_string "Title /* x */") (Some (ustr_of_string "src")) None 3 [1; 2] [3] []
             [(1, ustr_of_string "Ann A"); (2, ustr_of_string "Bob #1"); (3, ustr_of_string "Cy" ++ [233])]
             [(1, 1); (2, 2); (3, 3)]
             [(1, [2])] [(2, [[1; 2]])]
             [(1, 1); (2, 2); (3, 3)]
             [(1, ustr_of_string "1"); (2, ustr_of_string "2"); (3, ustr_of_string "3")] [].
