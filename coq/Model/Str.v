(* Str: decimal printing and the "%d.%0Nd" formats the value classes use. Definitions only. *)
From Coq Require Import ZArith List Bool String Ascii DecimalString DecimalZ.
From Droop Require Import Model.KernelBase.
Import ListNotations.
Open Scope Z_scope.

Definition string_of_Z (z : Z) : string := NilZero.string_of_int (Z.to_int z).

Fixpoint zeros (n : nat) : string :=
  match n with O => EmptyString | S k => String "0"%char (zeros k) end.

(* "%0Nd" % z  (Python: the sign counts towards the width) *)
Definition pad0 (width : Z) (z : Z) : string :=
  let w := Z.to_nat width in
  if z <? 0 then
    let d := string_of_Z (- z) in
    String "-"%char (zeros (w - 1 - String.length d) ++ d)
  else
    let d := string_of_Z z in
    (zeros (w - String.length d) ++ d).

(* rendering of the integer arguments under the class's display format:
   w1 = digits after the point, w2 = digits after the underscore (Guarded, display > precision) *)
Fixpoint render_fmt (w1 w2 : Z) (f : fmt_args) : string :=
  match f with
  | FmtInt a => string_of_Z a
  | Fmt2 a b => string_of_Z a ++ "." ++ pad0 w1 b
  | Fmt3 a b c => string_of_Z a ++ "." ++ pad0 w1 b ++ "_" ++ pad0 w2 c
  | FmtNeg g => String "-"%char (render_fmt w1 w2 g)
  end.

(* ---- reading a printed number back (used to state C14) ---- *)
Definition digit_of (c : ascii) : option Z :=
  let n := Z.of_nat (nat_of_ascii c) in
  if (48 <=? n) && (n <=? 57) then Some (n - 48) else None.

(* digits (ignoring '_') -> (value, number of digits) *)
Fixpoint read_digits (s : string) (acc : Z) (n : Z) : option (Z * Z) :=
  match s with
  | EmptyString => Some (acc, n)
  | String c t =>
      if Ascii.eqb c "_"%char then read_digits t acc n
      else match digit_of c with
           | Some d => read_digits t (acc * 10 + d) (n + 1)
           | None => None
           end
  end.

Fixpoint split_dot (s : string) (acc : string) : string * option string :=
  match s with
  | EmptyString => (acc, None)
  | String c t => if Ascii.eqb c "."%char then (acc, Some t) else split_dot t (acc ++ String c EmptyString)
  end.

(* denote s = Some (num, d): the string denotes num / 10^d *)
Definition denote (s : string) : option (Z * Z) :=
  let '(neg, body) := match s with
                      | String c t => if Ascii.eqb c "-"%char then (true, t) else (false, s)
                      | EmptyString => (false, s) end in
  let '(ip, fp) := split_dot body EmptyString in
  match ip with
  | EmptyString => None
  | _ =>
    match read_digits ip 0 0 with
    | None => None
    | Some (iv, _) =>
      match fp with
      | None => Some ((if neg then - iv else iv), 0)
      | Some f =>
        match read_digits f 0 0 with
        | None => None
        | Some (fv, fd) => let m := iv * 10 ^ fd + fv in Some ((if neg then - m else m), fd)
        end
      end
    end
  end.
