(* Record: the three renderings of the election record -- record.py (ElectionRecord._fill, report, dump,
   json), the rule hooks of rules/electionmethods.py (MethodWIGM / MethodMeek action, report, dump) and
   rules/qpq.py (action, report, dump), Candidate.as_dict / code, Candidates.cDict / cState / cidList.
   Input: the final state of the count model ([est A]; [actions] newest first), the [config], and a
   [header] of strings the count model does not compute.  Definitions only.

   Conventions.  A recorded action [a] carries [a_snap a = Some sn] unless it is a 'log' action
   (Prims.log_action); [as_c sn] lists every candidate (ascending cid) -- this is A['cstate'];
   [as_nt] is A['nt_votes'] (wigm) / A['residual'] (meek); [as_votes] is A['votes'].
   Where the Python would raise KeyError on an absent key (a snapshot that misses a candidate, a
   keep factor / quotient that is None) the model prints "?" / "None": these cases do not occur in
   a record produced by the count (every snapshot lists every candidate; meek sets kf and qpq sets
   quotient before the first action), and the correspondence check would show them. *)
From Coq Require Import ZArith List Bool String Ascii.
From Droop Require Import Model.KernelBase Model.Str Model.Arith Model.Prelude Model.State Model.Prims
  Model.DriverBase Model.CountCase.
Import ListNotations.
Open Scope string_scope.
Open Scope Z_scope.
Local Notation "a +++ b" := (@app _ a b) (at level 60, right associativity).

(* ------------------------------------------------------------------ JSON values *)
Inductive json :=
| JNull | JBool (b : bool) | JInt (z : Z) | JStr (s : string)
| JList (l : list json) | JObj (l : list (string * json)).

(* what the count model does not compute *)
Record header := mkHeader {
  h_title : string;
  h_droop_name : string; h_droop_version : string;
  h_rule_info : string;             (* E.rule.info() *)
  h_arith_info : string;            (* E.V.info *)
  h_unused : list string;           (* E.options.unused() *)
  h_overridden : list string;       (* E.options.overrides() *)
  h_quota_name : string;            (* E.rule.quota_name: "Quota", or "Threshold" for mpls *)
  h_omega : option string;          (* meek family: str(rule.omega); None = Python None *)
  h_source : option string;         (* record['profile_source'] when present *)
  h_comment : option string;        (* record['profile_comment'] when present *)
  h_maxdiff : string; h_mindiff : string;   (* Guarded statistics as printed by V.report() at the 'end' action *)
  h_options : json                  (* E.options.record(), keys already sorted *)
}.

Definition jget (k : string) (j : json) : option json :=
  match j with
  | JObj l => match find (fun kv => String.eqb (fst kv) k) l with Some kv => Some (snd kv) | None => None end
  | _ => None
  end.

(* ------------------------------------------------------------------ JSON text: json.dumps(sort_keys=True, indent=2) *)
Definition Z_of_ascii (c : ascii) : Z := Z.of_nat (nat_of_ascii c).
Definition ascii_of_Z (z : Z) : ascii := ascii_of_nat (Z.to_nat z).
Definition str1 (z : Z) : string := String (ascii_of_Z z) EmptyString.

(* names, titles and messages are UTF-8 byte strings in the model; Python holds code points *)
Fixpoint utf8_decode (l : list Z) : list Z :=
  match l with
  | [] => []
  | b :: t =>
    if b <? 128 then b :: utf8_decode t
    else if (192 <=? b) && (b <? 224) then
      match t with
      | b1 :: t1 => ((b - 192) * 64 + (b1 - 128)) :: utf8_decode t1
      | _ => b :: utf8_decode t
      end
    else if (224 <=? b) && (b <? 240) then
      match t with
      | b1 :: b2 :: t2 => ((b - 224) * 4096 + (b1 - 128) * 64 + (b2 - 128)) :: utf8_decode t2
      | _ => b :: utf8_decode t
      end
    else if 240 <=? b then
      match t with
      | b1 :: b2 :: b3 :: t3 =>
        ((b - 240) * 262144 + (b1 - 128) * 4096 + (b2 - 128) * 64 + (b3 - 128)) :: utf8_decode t3
      | _ => b :: utf8_decode t
      end
    else b :: utf8_decode t
  end.

Definition hexdigit (z : Z) : string := if z <? 10 then str1 (48 + z) else str1 (87 + z).
Definition hex4 (z : Z) : string :=
  hexdigit (z / 4096 mod 16) ++ hexdigit (z / 256 mod 16) ++ hexdigit (z / 16 mod 16) ++ hexdigit (z mod 16).
Definition bslash : string := str1 92.
Definition dquote : string := str1 34.

(* json.encoder.py_encode_basestring_ascii: everything outside the range space..tilde,
   and the backslash and the double quote, is escaped *)
Definition esc_cp (cp : Z) : string :=
  if cp =? 34 then bslash ++ dquote
  else if cp =? 92 then bslash ++ bslash
  else if cp =? 10 then bslash ++ "n"
  else if cp =? 13 then bslash ++ "r"
  else if cp =? 9 then bslash ++ "t"
  else if cp =? 8 then bslash ++ "b"
  else if cp =? 12 then bslash ++ "f"
  else if (32 <=? cp) && (cp <=? 126) then str1 cp
  else if cp <? 65536 then bslash ++ "u" ++ hex4 cp
  else let n := cp - 65536 in
       bslash ++ "u" ++ hex4 (55296 + (n / 1024) mod 1024) ++ bslash ++ "u" ++ hex4 (56320 + n mod 1024).

Definition json_string (s : string) : string :=
  dquote ++ String.concat "" (map esc_cp (utf8_decode (map Z_of_ascii (list_ascii_of_string s)))) ++ dquote.

Fixpoint spaces (n : nat) : string := match n with O => "" | S k => String " "%char (spaces k) end.
Definition nlind (n : nat) : string := nl ++ spaces (2 * n).

(* pieces of the text, to be concatenated *)
Fixpoint json_pieces (ind : nat) (j : json) : list string :=
  match j with
  | JNull => ["null"]
  | JBool true => ["true"]
  | JBool false => ["false"]
  | JInt z => [string_of_Z z]
  | JStr s => [json_string s]
  | JList [] => ["[]"]
  | JList l =>
    "[" :: nlind (S ind) ::
    (fix items (l : list json) : list string :=
       match l with
       | [] => []
       | x :: t => json_pieces (S ind) x +++ match t with [] => [] | _ => "," :: nlind (S ind) :: items t end
       end) l +++ [nlind ind; "]"]
  | JObj [] => ["{}"]
  | JObj l =>
    "{" :: nlind (S ind) ::
    (fix items (l : list (string * json)) : list string :=
       match l with
       | [] => []
       | (k, x) :: t => json_string k :: ": " :: json_pieces (S ind) x +++
                        match t with [] => [] | _ => "," :: nlind (S ind) :: items t end
       end) l +++ [nlind ind; "}"]
  end.
Definition json_text_of (j : json) : string := String.concat "" (json_pieces O j).

(* ------------------------------------------------------------------ the record *)
Definition is_short_tag (t : tag) : bool := match t with TRound | TLog | TIterate => true | _ => false end.
Definition is_fill_tag (t : tag) : bool := match t with TBegin | TCount | TRound => true | _ => false end.
Definition is_end_tag (t : tag) : bool := match t with TEnd => true | _ => false end.
(* tags whose "Action:" block lists the candidates ('pend' is in the Python tuple but is not a tag) *)
Definition lists_cands (t : tag) : bool :=
  match t with TBegin | TCount | TElect | TDefeat | TTransfer | TEnd => true | _ => false end.
(* tags QPQ's own 'action' section handles *)
Definition qpq_own (t : tag) : bool :=
  match t with TBegin | TTie | TElect | TDefeat | TTransfer | TEnd => true | _ => false end.
Definition is_tie (t : tag) : bool := match t with TTie => true | _ => false end.
Definition pend_true (p : option bool) : bool := match p with Some true => true | _ => false end.

Section Record.
Variable A : arith.
Variable M : arith_meta.    (* E.V.name, E.V.info, E.V.report of the arithmetic class *)
Variable cfg : config.
Variable h : header.
Notation V := (T A).
Notation est := (est A).
Notation m := (cf_method cfg).

Definition sv (v : V) : string := str A v.
Definition sov (o : option V) : string := match o with Some v => str A v | None => "None" end.

Definition lookup_sn (l : list (csnap A)) (i : Z) : option (csnap A) := find (fun c => sn_cid c =? i) l.
Definition name_of (cs : list (cand A)) (i : Z) : string :=
  match find_cand A cs i with Some c => cname c | None => "?" end.

(* E.C.cidList('all') / ('eligible'): ballot order *)
Definition all_cids (s : est) : list Z := map (@cid A) (by_order A (cands s)).
Definition elig_cids (s : est) : list Z := map (@cid A) (by_order A (eligibles A s)).
Definition record_actions (s : est) : list (action A) := rev (actions s).   (* oldest first *)

(* record['quota']: E.quota when _fill ran, i.e. at the first begin/count/round action
   (or when a rendering is requested, if there was none) *)
Definition fill_quota (s : est) : V :=
  match find (fun a => is_fill_tag (a_tag a)) (record_actions s) with
  | Some a => match a_snap a with Some sn => as_quota sn | None => quota s end
  | None => quota s
  end.

(* record['arithmetic_report']: set at the 'end' action when V.report() is non-empty *)
Definition arith_report (s : est) : option string :=
  let r := areport M (h_maxdiff h) (h_mindiff h) in
  if existsb (fun a => is_end_tag (a_tag a)) (actions s) && negb (String.eqb r "") then Some r else None.

(* ---------------------------------------------------------------- dump *)
Definition dump_rule_header : list string :=
  match m with MWigm => ["Non-Transferable"] | MMeek => ["Votes"; "Surplus"; "Residual"] | MQpq => [] end.
Definition dump_cid_header (i : Z) : list string :=
  let c := string_of_Z i in
  [c ++ ".name"; c ++ ".state"] +++
  match m with MWigm => [c ++ ".vote"] | MMeek => [c ++ ".vote"; c ++ ".kf"] | MQpq => [c ++ ".quotient"] end.
Definition dump_header (ecids : list Z) : list string :=
  ["R"; "Action"; "Quota"] +++ dump_rule_header +++ flat_map dump_cid_header ecids.

(* geometry of a full row: [R; Action; Quota] ++ rule cells, then [dump_cand_width] cells per eligible candidate *)
Definition dump_base : nat := (3 + List.length dump_rule_header)%nat.
Definition dump_cand_width : nat := match m with MMeek => 4%nat | _ => 3%nat end.

Definition dump_rule_cells (sn : asnap A) : list string :=
  match m with
  | MWigm => [sov (as_nt sn)]
  | MMeek => [sv (as_votes sn); sov (as_surplus sn); sov (as_nt sn)]
  | MQpq => []
  end.
Definition dump_value_cells (c : csnap A) : list string :=
  match m with
  | MWigm => [sv (sn_vote c)]
  | MMeek => [sv (sn_vote c); sov (sn_kf c)]
  | MQpq => [sov (sn_quo c)]
  end.
Definition dump_missing_cells : list string :=
  match m with MMeek => ["?"; "?"] | _ => ["?"] end.
Definition dump_cand_cells (cs : list (cand A)) (sn : asnap A) (i : Z) : list string :=
  match lookup_sn (as_c sn) i with
  | Some c => [name_of cs i; code_of m (sn_st c) (sn_pend c)] +++ dump_value_cells c
  | None => [name_of cs i; "?"] +++ dump_missing_cells
  end.
Definition dump_short_row (a : action A) : list string :=
  [string_of_Z (a_round a); tag_name (a_tag a); a_msg a].
Definition dump_row (cs : list (cand A)) (ecids : list Z) (a : action A) : list string :=
  if is_short_tag (a_tag a) then dump_short_row a
  else match a_snap a with
       | None => dump_short_row a
       | Some sn =>
         [(if is_end_tag (a_tag a) then "X" else string_of_Z (a_round a)); tag_name (a_tag a); sv (as_quota sn)] +++
         dump_rule_cells sn +++ flat_map (dump_cand_cells cs sn) ecids
       end.

Definition dump_table (s : est) : list (list string) :=
  dump_header (elig_cids s) :: map (dump_row (cands s) (elig_cids s)) (record_actions s).
Definition dump_line (r : list string) : string := String.concat tab r ++ nl.
Definition dump_text (s : est) : string := String.concat "" (map dump_line (dump_table s)).

(* ---------------------------------------------------------------- report *)
(* the snapshot's entries in record['cids'] order *)
Definition ordered_snaps (cids : list Z) (sn : asnap A) : list (csnap A) :=
  flat_map (fun i => match lookup_sn (as_c sn) i with Some c => [c] | None => [] end) cids.
Definition sn_in (st : cstate) (c : csnap A) : bool := cstate_eqb (sn_st c) st.

Definition cand_line (cs : list (cand A)) (label : string) (val : csnap A -> string) (c : csnap A) : string :=
  tab ++ label ++ name_of cs (sn_cid c) ++ " (" ++ val c ++ ")" ++ nl.
Definition vote_str (c : csnap A) : string := sv (sn_vote c).
Definition quo_str (c : csnap A) : string := sov (sn_quo c).

(* record.report(): the default candidate lines of an "Action:" block *)
Definition elected_np (l : list (csnap A)) := filter (fun c => sn_in Elected c && negb (pend_true (sn_pend c))) l.
Definition elected_p (l : list (csnap A)) := filter (fun c => sn_in Elected c && pend_true (sn_pend c)) l.
Definition hopeful_sn (l : list (csnap A)) := filter (sn_in Hopeful) l.
Definition defeated_sn (l : list (csnap A)) := filter (sn_in Defeated) l.
Definition defeated_pos (l : list (csnap A)) := filter (fun c => gtv A (sn_vote c) (of_int A 0)) (defeated_sn l).
Definition defeated_zero (l : list (csnap A)) := filter (fun c => eqv A (sn_vote c) (of_int A 0)) (defeated_sn l).

(* defeated candidates whose vote == 0 share one line *)
Definition zero_defeated_line (cs : list (cand A)) (z : list (csnap A)) : string :=
  tab ++ "Defeated: " ++ String.concat ", " (map (fun c => name_of cs (sn_cid c)) z) ++
  " (" ++ sv (of_int A 0) ++ ")" ++ nl.

Definition default_cand_lines (cs : list (cand A)) (l : list (csnap A)) : list string :=
  map (cand_line cs "Elected:  " vote_str) (elected_np l) +++
  map (cand_line cs "Pending:  " vote_str) (elected_p l) +++
  map (cand_line cs "Hopeful:  " vote_str) (hopeful_sn l) +++
  map (cand_line cs "Defeated: " vote_str) (defeated_pos l) +++
  match defeated_zero l with
  | [] => []
  | z => [zero_defeated_line cs z]
  end.

(* MethodWIGM.report 'actionappend' *)
Definition wigm_append (nt : V) (surp : string) (l : list (csnap A)) : list string :=
  let votes_of (x : list (csnap A)) := vsum A (map (@sn_vote A) x) in
  let h_votes := votes_of (hopeful_sn l) in
  let d_votes := votes_of (defeated_sn l) in
  let e_votes := votes_of (elected_np l) in
  let p_votes := votes_of (elected_p l) in
  let total := add A (add A (add A (add A e_votes p_votes) h_votes) d_votes) nt in
  let resid := sub A (of_int A (cf_nballots cfg)) total in
  [tab ++ "Elected votes: " ++ sv e_votes ++ nl] +++
  (if truth A p_votes then [tab ++ "Pending votes: " ++ sv p_votes ++ nl] else []) +++
  [tab ++ "Hopeful votes: " ++ sv h_votes ++ nl] +++
  (if truth A d_votes then [tab ++ "Defeated votes: " ++ sv d_votes ++ nl] else []) +++
  [tab ++ "Nontransferable votes: " ++ sv nt ++ nl;
   tab ++ "Residual: " ++ sv resid ++ nl;
   tab ++ "Total: " ++ sv (add A total resid) ++ nl;
   tab ++ "Surplus: " ++ surp ++ nl].

(* MethodMeek.report 'actionappend' *)
Definition meek_append (sn : asnap A) : list string :=
  [tab ++ h_quota_name h ++ ": " ++ sv (as_quota sn) ++ nl;
   tab ++ "Votes: " ++ sv (as_votes sn) ++ nl;
   tab ++ "Residual: " ++ sov (as_nt sn) ++ nl;
   tab ++ "Total: " ++ match as_nt sn with Some r => sv (add A (as_votes sn) r) | None => "None" end ++ nl;
   tab ++ "Surplus: " ++ sov (as_surplus sn) ++ nl].

Definition action_append (sn : asnap A) (l : list (csnap A)) : list string :=
  match m with
  | MWigm => wigm_append (match as_nt sn with Some v => v | None => of_int A 0 end) (sov (as_surplus sn)) l
  | MMeek => meek_append sn
  | MQpq => []
  end.

(* qpq.Rule.report 'action' *)
Definition qpq_cand_lines (cs : list (cand A)) (l : list (csnap A)) : list string :=
  map (cand_line cs "Elected:  " quo_str) (filter (sn_in Elected) l) +++
  map (cand_line cs "Hopeful:  " quo_str) (hopeful_sn l) +++
  map (cand_line cs "Defeated: " quo_str) (defeated_sn l).

(* does qpq.Rule.report handle this action itself (section 'action')? *)
Definition qpq_section (t : tag) : bool := match m with MQpq => qpq_own t | _ => false end.

(* the candidate lines of one action's block (empty for tags that list nobody) *)
Definition block_cand_lines (cs : list (cand A)) (cids : list Z) (a : action A) (sn : asnap A) : list string :=
  let l := ordered_snaps cids sn in
  if qpq_section (a_tag a)
  then (if is_tie (a_tag a) then [] else qpq_cand_lines cs l)
  else (if lists_cands (a_tag a) then default_cand_lines cs l else []).

Definition report_action (cs : list (cand A)) (cids : list Z) (a : action A) : list string :=
  match a_tag a, a_snap a with
  | TLog, _ => [tab ++ a_msg a ++ nl]
  | TRound, _ => ["Round " ++ string_of_Z (a_round a) ++ ":" ++ nl]
  | _, None => ["Action: " ++ a_msg a ++ nl]
  | _, Some sn =>
    ["Action: " ++ a_msg a ++ nl] +++ block_cand_lines cs cids a sn +++
    (if qpq_section (a_tag a)
     then [tab ++ h_quota_name h ++ ": " ++ sv (as_quota sn) ++ nl]
     else action_append sn (ordered_snaps cids sn))
  end.

Definition opt_line (pre : string) (o : option string) (post : string) : list string :=
  match o with Some x => [pre ++ x ++ post] | None => [] end.

Definition report_header (s : est) : list string :=
  [nl ++ "Election: " ++ h_title h ++ nl ++ nl;
   tab ++ "Droop package: " ++ h_droop_name h ++ " v" ++ h_droop_version h ++ nl;
   tab ++ "Rule: " ++ h_rule_info h ++ nl;
   tab ++ "Arithmetic: " ++ h_arith_info h ++ nl] +++
  match h_unused h with [] => [] | u => [tab ++ "Unused options: " ++ String.concat ", " u ++ nl] end +++
  match h_overridden h with [] => [] | u => [tab ++ "Overridden options: " ++ String.concat ", " u ++ nl] end +++
  [tab ++ "Seats: " ++ string_of_Z (cf_nseats cfg) ++ nl;
   tab ++ "Ballots: " ++ string_of_Z (cf_nballots cfg) ++ nl;
   tab ++ h_quota_name h ++ ": " ++ sv (fill_quota s) ++ nl] +++
  match m with
  | MMeek => [tab ++ "Omega: " ++ match h_omega h with Some o => o | None => "None" end ++ nl]
  | _ => []
  end +++
  opt_line "Source: " (h_source h) nl +++
  opt_line "{" (h_comment h) ("}" ++ nl) +++
  [nl].

Definition report_pieces (intr : bool) (s : est) : list string :=
  report_header s +++
  opt_line "" (arith_report s) "" +++
  (if intr then [tab ++ "** Count terminated prematurely by user interrupt **" ++ nl ++ nl] else []) +++
  flat_map (report_action (cands s) (all_cids s)) (record_actions s).
Definition report_text (intr : bool) (s : est) : string := String.concat "" (report_pieces intr s).

(* ---------------------------------------------------------------- json *)
Definition jov (k : string) (o : option V) : list (string * json) :=
  match o with Some v => [(k, JStr (sv v))] | None => [] end.

(* Candidate.as_dict(rw=True), keys sorted *)
Definition json_cstate_entry (c : csnap A) : json :=
  match sn_st c with
  | Withdrawn => JObj [("code", JStr (code_of m Withdrawn (sn_pend c))); ("state", JStr (state_name Withdrawn))]
  | st =>
    JObj ([("code", JStr (code_of m st (sn_pend c)))] +++ jov "kf" (sn_kf c) +++
          match sn_pend c with Some b => [("pending", JBool b)] | None => [] end +++
          jov "quotient" (sn_quo c) +++
          [("state", JStr (state_name st)); ("vote", JStr (sv (sn_vote c)))])
  end.
Definition json_cstate (l : list (csnap A)) : json :=
  JObj (map (fun c => (string_of_Z (sn_cid c), json_cstate_entry c)) l).

(* one action, keys sorted: cstate msg nt_votes quota residual round surplus tag votes *)
Definition json_action (a : action A) : json :=
  match a_snap a with
  | None => JObj [("msg", JStr (a_msg a)); ("round", JInt (a_round a)); ("tag", JStr (tag_name (a_tag a)))]
  | Some sn =>
    JObj ([("cstate", json_cstate (as_c sn)); ("msg", JStr (a_msg a))] +++
          match m with MWigm => jov "nt_votes" (as_nt sn) | _ => [] end +++
          [("quota", JStr (sv (as_quota sn)))] +++
          match m with MMeek => jov "residual" (as_nt sn) | _ => [] end +++
          [("round", JInt (a_round a))] +++
          jov "surplus" (as_surplus sn) +++
          [("tag", JStr (tag_name (a_tag a))); ("votes", JStr (sv (as_votes sn)))])
  end.

(* Candidate.as_dict(ro=True) *)
Definition json_cdict_entry (c : cand A) : json :=
  JObj [("ballot_order", JInt (corder c)); ("cid", JInt (cid c)); ("name", JStr (cname c));
        ("nick", JStr (cnick c)); ("tie_order", JInt (ctie c))].

Definition jos (k : string) (o : option string) : list (string * json) :=
  match o with Some x => [(k, JStr x)] | None => [] end.

Definition method_name : string := match m with MWigm => "wigm" | MMeek => "meek" | MQpq => "qpq" end.

Definition json_tree (s : est) : json :=
  JObj ([("actions", JList (map json_action (record_actions s)));
         ("arithmetic_info", JStr (h_arith_info h));
         ("arithmetic_name", JStr (aname M))] +++
        jos "arithmetic_report" (arith_report s) +++
        [("cdict", JObj (map (fun c => (string_of_Z (cid c), json_cdict_entry c)) (cands s)));
         ("cids", JList (map JInt (all_cids s)));
         ("droop_name", JStr (h_droop_name h));
         ("droop_version", JStr (h_droop_version h));
         ("ecids", JList (map JInt (elig_cids s)));
         ("method", JStr method_name);
         ("nballots", JInt (cf_nballots cfg))] +++
        match m with
        | MMeek => [("omega", match h_omega h with Some o => JStr o | None => JNull end)]
        | _ => []
        end +++
        [("options", h_options h)] +++
        jos "profile_comment" (h_comment h) +++
        jos "profile_source" (h_source h) +++
        [("quota", JStr (sv (fill_quota s)));
         ("rule_info", JStr (h_rule_info h));
         ("rule_name", JStr (cf_rule cfg));
         ("seats", JInt (cf_nseats cfg));
         ("title", JStr (h_title h))]).
Definition json_text (s : est) : string := json_text_of (json_tree s).

End Record.
