(* Prims: the micro-operations the rule models are built from (one definition per distinct
   Python helper).  Definitions only. *)
From Coq Require Import ZArith List Bool String.
From Droop Require Import Model.KernelBase Model.Str Model.Arith Model.Prelude Model.State.
Import ListNotations.
Open Scope string_scope.
Open Scope Z_scope.

Record config := mkConfig {
  cf_rule : string;
  cf_method : meth;
  cf_nseats : Z;
  cf_nballots : Z;
  cf_integer_quota : bool;     (* wigm integer_quota *)
  cf_batch_zero : bool;        (* wigm defeat_batch=zero *)
  cf_batch : bool;             (* wigm-prf-batch / cfer-batch; meek: defeat_batch=safe *)
  cf_warren : bool;
  cf_omega10 : Z
}.

Section Prims.
Variable A : arith.
Variable cfg : config.
Notation V := (T A).
Notation est := (est A).
Notation cand := (cand A).
Notation ballot := (ballot A).

Definition V0 : V := of_int A 0.
Definition V1 : V := of_int A 1.

Definition seats_left (s : est) : Z := cf_nseats cfg - nlen (electeds A s).

(* ---------------- recording (record.py action(), electionmethods action hooks) *)
Definition csnap_of (c : cand) : csnap A :=
  mkCsnap (cid c) (cst c) (cpend c) (cvote c) (ckf c) (cquo c).

Definition snap_of (s : est) : asnap A :=
  mkAsnap (map csnap_of (cands s))
          (match cf_method cfg with MQpq => votes s | _ => vsum A (map (@cvote A) (eligibles A s)) end)
          (quota s)
          (match cf_method cfg with MWigm => Some (exhausted s) | MMeek => Some (residual s) | MQpq => None end)
          (match cf_method cfg with MQpq => None | _ => Some (surplus s) end)
          (map (fun b => (bidx b, bweight b)) (ballots s)).

Definition is_log (t : tag) : bool := match t with TLog => true | _ => false end.
Definition is_round (t : tag) : bool := match t with TRound => true | _ => false end.

Definition log_action (t : tag) (msg : string) (s : est) : est :=
  if is_log t then set_actions s (mkAction t msg (round s) None :: actions s)
  else
    let s1 := if is_round t then set_rounds s (rounds s ++ [cands s])%list else s in
    set_actions s1 (mkAction t msg (round s1) (Some (snap_of s1)) :: actions s1).

Definition log_msg (msg : string) (s : est) : est := log_action TLog msg s.
Definition new_round (s : est) : est := log_action TRound "New Round" (set_round s (round s + 1)).

(* ---------------- candidate status writers (candidate.py) *)
Definition elect (i : Z) (msg : string) (pending : bool) (s : est) : est :=
  match find_cand A (cands s) i with
  | None => set_crash s KeyError
  | Some c =>
    log_action TElect (msg ++ ": " ++ cname c) (upd A s i (fun c => with_st c Elected (Some pending)))
  end.
Definition elect_default (i : Z) (pending : bool) (s : est) : est :=
  elect i (if pending then "Elect, transfer pending" else "Elect") pending s.

Definition defeat (i : Z) (msg : string) (s : est) : est :=
  match find_cand A (cands s) i with
  | None => set_crash s KeyError
  | Some c => log_action TDefeat (msg ++ ": " ++ cname c) (upd A s i (fun c => with_st c Defeated (cpend c)))
  end.

(* unpend(msg): asserts elected and pending *)
Definition unpend (i : Z) (msg : option string) (s : est) : est :=
  match find_cand A (cands s) i with
  | None => set_crash s KeyError
  | Some c =>
    if is_pending A c then
      let s1 := upd A s i (fun c => with_st c Elected (Some false)) in
      match msg with Some m => log_action TUnpend (m ++ ": " ++ cname c) s1 | None => s1 end
    else set_crash s AssertionError
  end.
Definition unelect (i : Z) (s : est) : est := upd A s i (fun c => with_st c Hopeful (cpend c)).

Definition set_vote (i : Z) (v : V) (s : est) : est := upd A s i (fun c => with_vote c v).
Definition add_vote (i : Z) (v : V) (s : est) : est := upd A s i (fun c => with_vote c (add A (cvote c) v)).
Definition cvote_of (s : est) (i : Z) : V :=
  match find_cand A (cands s) i with Some c => cvote c | None => V0 end.
Definition cname_of (s : est) (i : Z) : string :=
  match find_cand A (cands s) i with Some c => cname c | None => "?" end.

Fixpoint join (sep : string) (l : list string) : string :=
  match l with [] => "" | [x] => x | x :: t => x ++ sep ++ join sep t end.
Definition names (l : list cand) : string := join ", " (map (@cname A) l).

(* ---------------- ties *)
(* breakTie: one candidate -> that one; else first in tie order, logged *)
Definition break_tie (fmt : string -> string -> string) (tied : list cand) (s : est) : est * option Z :=
  match tied with
  | [] => (set_crash s IndexError, None)
  | [c] => (s, Some (cid c))
  | _ =>
    match by_tie A tied with
    | t :: _ => (log_action TTie (fmt (names tied) (cname t)) s, Some (cid t))
    | [] => (set_crash s IndexError, None)
    end
  end.
Definition tie_fmt (reason : string) (nm t : string) : string :=
  "Break tie (" ++ reason ++ "): [" ++ nm ++ "] -> " ++ t.

(* builtin max()/min() over candidate votes: first maximal under >, first minimal under < *)
Definition max_vote (l : list cand) : option V :=
  match l with
  | [] => None
  | c :: t => Some (fold_left (fun m y => if gtv A (cvote y) m then cvote y else m) t (cvote c))
  end.
Definition min_vote (l : list cand) : option V :=
  match l with
  | [] => None
  | c :: t => Some (fold_left (fun m y => if ltv A (cvote y) m then cvote y else m) t (cvote c))
  end.

(* ---------------- ballots *)
(* advance while the top candidate is not continuing; r is the ranking from index i on *)
Fixpoint advance_from (cont : Z -> bool) (r : list Z) (i : nat) : nat :=
  match r with
  | [] => i
  | c :: t => if cont c then i else advance_from cont t (S i)
  end.

Definition cont_pred (keep : cand -> bool) (s : est) (i : Z) : bool :=
  match find_cand A (cands s) i with Some c => keep c | None => false end.

(* transfer(ballot): advance to the next continuing candidate and credit the ballot's vote *)
Definition transfer (keep : cand -> bool) (s : est) (b : ballot) : est * ballot :=
  let i := advance_from (cont_pred keep s) (skipn (bidx b) (brank b)) (bidx b) in
  let b' := with_bidx b i in
  match top_rank A b' with
  | None => (set_exhausted s (add A (exhausted s) (bvote A b')), b')
  | Some c => (add_vote c (bvote A b') s, b')
  end.

(* for b in ballots: if sel b: [b.weight = rew s b]; transfer(b) *)
Fixpoint process_ballots (f : est -> ballot -> est * ballot) (sel : ballot -> bool)
         (bs : list ballot) (s : est) (acc : list ballot) : est * list ballot :=
  match bs with
  | [] => (s, rev acc)
  | b :: t =>
    if crashed s then (s, (rev acc ++ bs)%list)
    else if sel b then let '(s', b') := f s b in process_ballots f sel t s' (b' :: acc)
    else process_ballots f sel t s (b :: acc)
  end.
Definition for_ballots (f : est -> ballot -> est * ballot) (sel : ballot -> bool) (s : est) : est :=
  let '(s', bs) := process_ballots f sel (ballots s) s [] in set_ballots s' bs.

Definition top_is (i : Z) (b : ballot) : bool :=
  match top_rank A b with Some c => c =? i | None => false end.
Definition top_in (l : list Z) (b : ballot) : bool :=
  match top_rank A b with Some c => existsb (Z.eqb c) l | None => false end.

(* surplus transfer of candidate i: each of its ballots is re-weighted, then transferred *)
Definition reweigh_transfer (keep : cand -> bool) (rew : V -> V -> V -> res V) (i : Z) (surp : V)
           (s : est) (b : ballot) : est * ballot :=
  match rew (bweight b) surp (cvote_of s i) with
  | Raise e => (set_crash s e, b)
  | Ok w => transfer keep s (with_bweight b w)
  end.

(* (w * surplus) / vote : two truncations *)
Definition rew_wigm (w surp v : V) : res V := divv A (mulv A w surp) v.
(* Scottish: V.muldiv(w, surplus, vote, round='down') : one truncation *)
Definition rew_scot (w surp v : V) : res V := kmuldiv A w surp v false.

(* initial count: for b in ballots: b.topCand.vote += b.vote *)
Definition initial_count (s : est) : est :=
  fold_left (fun s b => match top_rank A b with Some c => add_vote c (bvote A b) s | None => set_crash s AttributeError end)
            (ballots s) s.

Definition is_hopeful (c : cand) : bool := in_state A Hopeful c.

(* for c in [c for c in C.hopeful(order='vote', reverse=True) if hasQuota(c)]: c.elect(pending=True) *)
Definition elect_with_quota (has_quota : est -> cand -> bool) (pend : est -> cand -> bool) (msg : option string)
           (extra : cand -> bool) (s : est) : est :=
  let l := filter (fun c => extra c && has_quota s c) (by_vote A true (hopefuls A s)) in
  fold_left (fun s c => match msg with
                        | None => elect_default (cid c) (pend s c) s
                        | Some m => elect (cid c) m (pend s c) s end) l s.

Definition ge_quota (s : est) (c : cand) : bool := gev A (cvote c) (quota s).
Definition has_quota_exact (s : est) (c : cand) : bool :=
  if exact A then gtv A (cvote c) (quota s) else gev A (cvote c) (quota s).

(* transfer the pending surplus with the highest vote (wigm, wigm-prf, scotland) *)
Definition transfer_high_surplus (bt : list cand -> est -> est * option Z) (rew : V -> V -> V -> res V) (s : est) : est :=
  match max_vote (pendings A s) with
  | None => set_crash s ValueError
  | Some hv =>
    let highs := filter (fun c => eqv A (cvote c) hv) (pendings A s) in
    match bt highs s with
    | (s1, None) => s1
    | (s1, Some h) =>
      let s2 := unpend h (Some "Transfer high surplus") s1 in
      if crashed s2 then s2 else
      let surp := sub A (cvote_of s2 h) (quota s2) in
      let s3 := for_ballots (reweigh_transfer is_hopeful rew h surp) (top_is h) s2 in
      if crashed s3 then s3 else
      let s4 := set_vote h (quota s3) s3 in
      log_action TTransfer ("Surplus transferred: " ++ cname_of s4 h ++ " (" ++ str A surp ++ ")") s4
    end
  end.

(* defeat the hopeful with the lowest vote and transfer its ballots *)
Definition transfer_defeated_one (i : Z) (s : est) : est :=
  let s1 := for_ballots (transfer is_hopeful) (top_is i) s in
  let s2 := set_vote i V0 s1 in
  log_action TTransfer ("Transfer defeated: " ++ cname_of s2 i) s2.

Definition low_candidates (s : est) : option (V * list cand) :=
  match min_vote (hopefuls A s) with
  | None => None
  | Some lv => Some (lv, filter (fun c => eqv A (cvote c) lv) (hopefuls A s))
  end.

Definition defeat_low (bt : list cand -> est -> est * option Z) (msg : string) (s : est) : est :=
  match low_candidates s with
  | None => set_crash s ValueError
  | Some (_, lows) =>
    match bt lows s with
    | (s1, None) => s1
    | (s1, Some l) =>
      let s2 := defeat l msg s1 in
      if crashed s2 then s2 else transfer_defeated_one l s2
    end
  end.

(* epilogue shared by wigm and wigm-prf *)
Definition unpend_all (s : est) : est :=
  fold_left (fun s c => unpend (cid c) None s) (pendings A s) s.
Definition elect_or_defeat_remaining (s : est) : est :=
  fold_left (fun s c => if nlen (electeds A s) <? cf_nseats cfg then elect (cid c) "Elect remaining" false s
                        else defeat (cid c) "Defeat remaining" s) (hopefuls A s) s.

(* sure-loser batches (wigm-prf batchDefeat, meek batchDefeat): groups of candidates tied within
   the surplus, then the largest prefix of groups that are sure losers *)
Fixpoint group_tied (surp : V) (l : list cand) (vote : V) (group : list cand) (acc : list (list cand))
  : list (list cand) :=
  match l with
  | [] => rev (match group with [] => acc | _ => rev group :: acc end)
  | c :: t =>
    if gev A (add A vote surp) (cvote c) then group_tied surp t vote (c :: group) acc
    else group_tied surp t (cvote c) [c] (match group with [] => acc | _ => rev group :: acc end)
  end.

(* for g in range(len(groups)-1): ... ; returns maxg as a count of groups to take *)
Fixpoint scan_groups (surp : V) (maxDefeat : Z) (gs : list (list cand)) (vote : V) (ncand : Z) (g : nat) (maxg : option nat)
  : option nat :=
  match gs with
  | grp :: ((nxt :: _) as t) =>
    let ncand' := ncand + nlen grp in
    if maxDefeat <? ncand' then maxg
    else
      let vote' := add A vote (vsum A (map (@cvote A) grp)) in
      let maxg' := match nxt with
                   | c :: _ => if ltv A (add A vote' surp) (cvote c) then Some g else maxg
                   | [] => maxg end in
      scan_groups surp maxDefeat t vote' ncand' (S g) maxg'
  | _ => maxg
  end.

Definition batch_defeat (surp : V) (s : est) : list cand :=
  let sorted := by_vote A false (hopefuls A s) in
  let groups := group_tied surp sorted V0 [] [] in
  let maxDefeat := nlen (hopefuls A s) - seats_left s in
  match scan_groups surp maxDefeat groups V0 0 O None with
  | None => []
  | Some g => List.concat (firstn (S g) groups)
  end.

End Prims.
