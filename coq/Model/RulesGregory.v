(* RulesGregory: wigm, wigm-prf(-batch), scotland, cfer(-batch), mpls as command trees.
   Each tree mirrors the control flow of the rule's count() statement group by statement group.
   Rule-local variables that live across statement groups (a batch of candidates chosen for
   defeat) are kept in lv_batch. *)
From Coq Require Import ZArith List Bool String.
From Droop Require Import Model.KernelBase Model.Str Model.Arith Model.Prelude Model.State Model.Prims.
Import ListNotations.
Open Scope string_scope.
Open Scope Z_scope.
Open Scope cmd_scope.

Section Rules.
Variable A : arith.
Variable cfg : config.
Notation V := (T A).
Notation est := (est A).
Notation cand := (cand A).
Notation cmd := (cmd est).

Let V0 := V0 A.
Let nseats := cf_nseats cfg.
Let nballots := cf_nballots cfg.
Let log := log_action A cfg.
Definition nonempty {X} (l : list X) : bool := match l with [] => false | _ => true end.

Definition guard_main (s : est) : bool :=
  (seats_left A cfg s <? nlen (hopefuls A s)) && (0 <? seats_left A cfg s).

Definition bt_simple (reason : string) (tied : list cand) (s : est) : est * option Z :=
  break_tie A cfg (tie_fmt reason) tied s.

(* V(nBallots) / V(nSeats+1) + epsilon *)
Definition droop_quota_eps : res V :=
  match divv A (of_int A nballots) (of_int A (nseats + 1)) with
  | Ok q => Ok (add A q (epsilon A))
  | Raise e => Raise e
  end.
Definition integer_droop_quota : V := of_int A (nballots / (nseats + 1) + 1).

Definition start_count (q : res V) (s : est) : est :=
  match q with
  | Raise e => set_crash s e
  | Ok q => set_exhausted (initial_count A (set_quota s q)) V0
  end.

Definition cands_of (s : est) (cids : list Z) : list cand :=
  flat_map (fun i => match find_cand A (cands s) i with Some c => [c] | None => [] end) cids.

(* transfer the ballots of a defeated batch, zero their votes, log *)
Definition transfer_batch (keep : cand -> bool) (s : est) : est :=
  let cids := lv_batch s in
  let s1 := for_ballots A (transfer A keep) (top_in A cids) s in
  let s2 := fold_left (fun s i => set_vote A i V0 s) cids s1 in
  log TTransfer ("Transfer defeated: " ++ names A (cands_of s2 cids)) s2.

(* ------------------------------------------------------------------ wigm *)
Definition wigm_quota : res V :=
  if cf_integer_quota cfg then Ok (of_int A (1 + nballots / (nseats + 1)))
  else if exact A then divv A (of_int A nballots) (of_int A (nseats + 1))
  else droop_quota_eps.

Definition wigm_defeat (s : est) : est :=
  match low_candidates A s with
  | None => set_crash s ValueError
  | Some (lv, lows) =>
    if eqv A lv V0 && cf_batch_zero cfg && (seats_left A cfg s <=? nlen (hopefuls A s) - nlen lows) then
      let s1 := fold_left (fun s c => defeat A cfg (cid c) "Defeat batch(zero)" s) lows s in
      fold_left (fun s c => transfer_defeated_one A cfg (cid c) s) lows s1
    else
      match bt_simple "defeat" lows s with
      | (s1, None) => s1
      | (s1, Some l) =>
        let s2 := defeat A cfg l "Defeat" s1 in
        if crashed s2 then s2 else transfer_defeated_one A cfg l s2
      end
  end.

Definition wigm : cmd :=
  Do (fun s => log TBegin "Begin Count" (start_count wigm_quota s)) ;;
  While guard_main (
    Do (new_round A cfg) ;;
    Do (elect_with_quota A cfg (has_quota_exact A) (fun _ _ => true) None (fun _ => true)) ;;
    Ite (fun s => nonempty (pendings A s))
      (Do (transfer_high_surplus A cfg (bt_simple "surplus") (rew_wigm A)))
      (Ite (fun s => nonempty (hopefuls A s)) (Do wigm_defeat) Skip)) ;;
  Do (unpend_all A cfg) ;;
  Do (elect_or_defeat_remaining A cfg).

(* ------------------------------------------------------------------ wigm-prf, wigm-prf-batch *)
Definition pending_surplus (s : est) : V :=
  vsum A (map (fun c => sub A (cvote c) (quota s)) (pendings A s)).

Definition prf_find_batch (s : est) : est :=
  set_batch s (if cf_batch cfg then map (@cid A) (batch_defeat A cfg (pending_surplus s) s) else []).

Definition defeat_batch_in_ballot_order (msg : string) (s : est) : est :=
  fold_left (fun s c => defeat A cfg (cid c) msg s) (by_order A (cands_of s (lv_batch s))) s.

Definition wigm_prf : cmd :=
  Do (fun s => log TBegin "Begin Count" (start_count droop_quota_eps s)) ;;
  While guard_main (
    Do (new_round A cfg) ;;
    Do (elect_with_quota A cfg (ge_quota A) (fun _ _ => true) None (fun _ => true)) ;;
    Do prf_find_batch ;;
    Ite (fun s => nonempty (lv_batch s))
      (Do (defeat_batch_in_ballot_order "Defeat sure loser") ;;
       Ite (fun s => nlen (hopefuls A s) <=? seats_left A cfg s) Break Skip ;;
       Do (transfer_batch (is_hopeful A)) ;;
       Continue)
      Skip ;;
    Ite (fun s => nonempty (pendings A s))
      (Do (transfer_high_surplus A cfg (bt_simple "surplus") (rew_wigm A)))
      (Ite (fun s => nonempty (hopefuls A s)) (Do (defeat_low A cfg (bt_simple "defeat") "Defeat")) Skip)) ;;
  Do (unpend_all A cfg) ;;
  Do (elect_or_defeat_remaining A cfg).

(* ------------------------------------------------------------------ scotland *)
Definition count_complete (s : est) : bool :=
  (seats_left A cfg s <=? 0) || (nlen (hopefuls A s) <=? seats_left A cfg s).

(* breakTie of scotland.py: most recent prior stage at which the tied candidates' votes have a
   unique extreme (lowest for a defeat, highest for a surplus), else by lot *)
Definition scot_stage_pick (is_defeat : bool) (tied_cids : list Z) (CN : list cand) : option cand :=
  let tiedCN := by_vote A false (filter (fun cn => existsb (Z.eqb (cid cn)) tied_cids) CN) in
  match (if is_defeat then hd_error tiedCN else hd_error (rev tiedCN)) with
  | None => None      (* tiedCN[direction] on an empty list: IndexError (cannot happen: rounds hold all candidates) *)
  | Some ref =>
    match filter (fun cn => eqv A (cvote cn) (cvote ref)) tiedCN with
    | [cn0] => Some cn0
    | _ => None
    end
  end.

Fixpoint scot_search (is_defeat : bool) (tied_cids : list Z) (stages_newest_first : list (list cand)) : option cand :=
  match stages_newest_first with
  | [] => None
  | CN :: older =>
    match scot_stage_pick is_defeat tied_cids CN with
    | Some cn0 => Some cn0
    | None => scot_search is_defeat tied_cids older
    end
  end.

Definition scot_break_tie (is_defeat : bool) (reason : string) (tied : list cand) (s : est) : est * option Z :=
  match tied with
  | [] => (set_crash s IndexError, None)
  | [c] => (s, Some (cid c))
  | _ =>
    let nm := names A tied in
    let tied_cids := map (@cid A) tied in
    (* for n in range(E.round-1, -1, -1): CN = E.rounds[n] *)
    let stages := rev (firstn (Z.to_nat (round s)) (rounds s)) in
    match scot_search is_defeat tied_cids stages with
    | Some cn0 =>
      (log TTie ("Break tie by prior stage (" ++ reason ++ "): [" ++ nm ++ "] -> " ++ cname cn0) s, Some (cid cn0))
    | None =>
      match by_tie A tied with
      | c0 :: _ => (log TTie ("Break tie by lot (" ++ reason ++ "): [" ++ nm ++ "] -> " ++ cname c0) s, Some (cid c0))
      | [] => (set_crash s IndexError, None)
      end
    end
  end.

Definition cand_surplus (s : est) (c : cand) : V :=
  let d := sub A (cvote c) (quota s) in if ltv A d V0 then V0 else d.

Definition scotland : cmd :=
  Do (fun s => log TBegin "Begin Count" (start_count (Ok integer_droop_quota) s)) ;;
  While (fun _ => true) (
    Do (elect_with_quota A cfg (ge_quota A) (fun _ _ => true) None (fun _ => true)) ;;
    Ite count_complete Break Skip ;;
    Do (new_round A cfg) ;;
    Do (fun s => set_surplus s (vsum A (map (cand_surplus s) (pendings A s)))) ;;
    Ite (fun s => nonempty (pendings A s))
      (Do (transfer_high_surplus A cfg (scot_break_tie false "largest surplus") (rew_scot A)) ;; Continue)
      Skip ;;
    Ite (fun s => nonempty (hopefuls A s))
      (Do (defeat_low A cfg (scot_break_tie true "defeat low candidate") "Defeat low candidate"))
      Skip ;;
    Ite count_complete Break Skip) ;;
  Do (unpend_all A cfg) ;;
  Ite (fun s => nlen (hopefuls A s) <=? seats_left A cfg s)
    (Do (fun s => fold_left (fun s c => elect A cfg (cid c) "Elect remaining candidates" false s) (hopefuls A s) s))
    Skip ;;
  Do (fun s => fold_left (fun s c => defeat A cfg (cid c) "Defeat remaining candidates" s) (hopefuls A s) s).

(* ------------------------------------------------------------------ cfer, cfer-batch *)
Definition gt_quota (s : est) (c : cand) : bool := gtv A (cvote c) (quota s).

(* batchDefeat of cfer.py: scan t = 0 .. len-2 *)
Fixpoint cfer_scan (s : est) (surp : V) (nElected : Z) (all : list cand) (lastv : V)
         (prefix_rev : list cand) (rest : list cand) (best : list cand) : list cand :=
  match rest with
  | ct :: ((nextc :: _) as rest') =>
    let trial := rev (ct :: prefix_rev) in
    if nlen rest' + nElected <? nseats then best
    else
      let vds := vsum A (map (@cvote A) trial) in
      if gev A (add A vds surp) (cvote nextc) then cfer_scan s surp nElected all lastv (ct :: prefix_rev) rest' best
      else
        let cond :=
          (nElected + 1 =? nseats) ||
          (nlen all - nlen trial + nElected =? nseats) ||
          ltv A (add A vds surp) (sub A (quota s) lastv) ||
          (eqv A surp V0 && ltv A (sub A vds (cvote ct)) (sub A (quota s) lastv)) in
        cfer_scan s surp nElected all lastv (ct :: prefix_rev) rest' (if cond then trial else best)
  | _ => best
  end.

Definition cfer_batch (s : est) : list cand :=
  let surp := pending_surplus s in
  let cs := by_vote A false (hopefuls A s) in
  match rev cs with
  | [] => []
  | lastc :: _ => cfer_scan s surp (nlen (electeds A s)) cs (cvote lastc) [] cs []
  end.

Definition cfer_find_batch (s : est) : est :=
  set_batch s (if cf_batch cfg then map (@cid A) (cfer_batch s) else []).

(* for c in C.pending(): unpend, reweigh and transfer, vote = quota, log *)
Definition cfer_transfer_all_pending (s : est) : est :=
  fold_left (fun s c =>
    if crashed s then s else
    let h := cid c in
    let s2 := unpend A cfg h (Some "Transfer surplus") s in
    if crashed s2 then s2 else
    let surp := sub A (cvote_of A s2 h) (quota s2) in
    let s3 := for_ballots A (reweigh_transfer A (is_hopeful A) (rew_wigm A) h surp) (top_is A h) s2 in
    if crashed s3 then s3 else
    let s4 := set_vote A h (quota s3) s3 in
    log TTransfer ("Surplus transferred: " ++ cname_of A s4 h ++ " (" ++ str A surp ++ ")") s4)
  (pendings A s) s.

Definition cfer_defeat_low (s : est) : est :=
  match low_candidates A s with
  | None => set_crash s ValueError
  | Some (_, lows) =>
    match bt_simple "defeat" lows s with
    | (s1, None) => s1
    | (s1, Some l) => set_batch (defeat A cfg l "Defeat" s1) [l]
    end
  end.

Definition cfer : cmd :=
  Do (fun s => log TBegin "Begin Count" (start_count droop_quota_eps s)) ;;
  While (fun _ => true) (
    Do (new_round A cfg) ;;
    Ite (fun s => (round s =? 1) && (nlen (hopefuls A s) <=? nseats))
      (Do (fun s => fold_left (fun s c => elect A cfg (cid c) "Elect all" false s) (hopefuls A s) s) ;; Break)
      Skip ;;
    Do (elect_with_quota A cfg (ge_quota A) gt_quota None (fun _ => true)) ;;
    Ite (fun s => nseats <=? nlen (electeds A s))
      (Do (unpend_all A cfg) ;;
       Do (fun s => fold_left (fun s c => defeat A cfg (cid c) "Defeat remaining" s) (hopefuls A s) s) ;;
       Break)
      Skip ;;
    Do cfer_find_batch ;;
    Ite (fun s => nonempty (lv_batch s))
      (Do (defeat_batch_in_ballot_order "Defeat batch"))
      (Ite (fun s => nonempty (pendings A s))
         (Do cfer_transfer_all_pending)
         (Do cfer_defeat_low)) ;;
    Ite (fun s => nonempty (lv_batch s))
      (Ite (fun s => nlen (hopefuls A s) + nlen (electeds A s) <=? nseats)
         (Do (fun s => fold_left (fun s c => elect A cfg (cid c) "Elect pending" false s) (pendings A s) s) ;;
          Do (fun s => fold_left (fun s c => elect A cfg (cid c) "Elect remaining" false s) (hopefuls A s) s) ;;
          Break)
         Skip ;;
       Do (transfer_batch (is_hopeful A)))
      Skip).

(* ------------------------------------------------------------------ mpls *)
Definition mpls_keep (c : cand) : bool := is_hopeful A c || is_pending A c.

Definition mpls_surplus (only_declared : bool) (s : est) : V :=
  vsum A (map (cand_surplus s) (filter (fun c => negb (only_declared && cundecl c)) (cands s))).

Definition hopeful_with_quota (declared_only : bool) (s : est) : list cand :=
  filter (fun c => negb (declared_only && cundecl c) && ge_quota A s c) (by_vote A true (hopefuls A s)).

(* findCertainLosers(surplus) *)
Fixpoint mpls_scan (surp : V) (maxDefeat : Z) (l : list cand) (vote : V) (maybe_rev : list cand) (losers : list cand)
  : list cand :=
  match l with
  | c :: ((nxt :: _) as t) =>
    let maybe_rev' := c :: maybe_rev in
    if maxDefeat <? nlen maybe_rev' then losers
    else
      let vote' := add A vote (cvote c) in
      mpls_scan surp maxDefeat t vote' maybe_rev'
                (if ltv A (add A vote' surp) (cvote nxt) then rev maybe_rev' else losers)
  | _ => losers
  end.
Definition find_certain_losers (surp : V) (s : est) : list cand :=
  let sorted := by_vote A false (hopefuls A s) in
  by_order A (mpls_scan surp (nlen (hopefuls A s) - seats_left A cfg s) sorted V0 [] []).

Definition ballot_top_undeclared (s : est) (b : ballot A) : option bool :=
  match top_rank A b with
  | None => None
  | Some c => match find_cand A (cands s) c with Some x => Some (cundecl x) | None => None end
  end.

(* round-2 special: undeclared write-ins are defeated first; then certain losers *)
Definition mpls_find_defeats (s : est) : est :=
  let und := if round s =? 2 then filter (@cundecl A) (hopefuls A s) else [] in
  let uv : res V :=
    if round s =? 2 then
      fold_left (fun acc b => match acc with
                              | Raise e => Raise e
                              | Ok v => match ballot_top_undeclared s b with
                                        | None => Raise AttributeError
                                        | Some true => Ok (add A v (bvote A b))
                                        | Some false => Ok v end end) (ballots s) (Ok V0)
    else Ok V0 in
  match uv with
  | Raise e => set_crash s e
  | Ok uv =>
    (* round 1..: undeclaredVotes is the int 0 unless round 2; surplus + 0 is the same value *)
    let losers := find_certain_losers (if round s =? 2 then add A (surplus s) uv else surplus s) s in
    (* each candidate once: certain losers already listed as undeclared write-ins are skipped *)
    let losers' := filter (fun c => negb (existsb (fun u => cid u =? cid c) und)) losers in
    set_batch s (map (@cid A) ((und ++ losers')%list))
  end.

Definition mpls_defeat_batch (s : est) : est :=
  let cs := cands_of s (lv_batch s) in
  let s1 := fold_left (fun s c => defeat A cfg (cid c)
                         (if cundecl c then "Defeat undeclared write-in" else "Defeat certain loser") s) cs s in
  let s2 := for_ballots A (transfer A mpls_keep) (top_in A (lv_batch s)) s1 in
  let s3 := fold_left (fun s i => set_vote A i V0 s) (lv_batch s) s2 in
  let s4 := set_surplus s3 (mpls_surplus false s3) in
  log TTransfer ("Transfer defeated: " ++ names A (cands_of s4 (lv_batch s))) s4.

Definition mpls_elect_high (s : est) : est :=
  let hq := hopeful_with_quota false s in
  match max_vote A hq with
  | None => set_crash s ValueError
  | Some hv =>
    let highs := filter (fun c => eqv A (cvote c) hv) hq in
    match bt_simple "largest surplus" highs s with
    | (s1, None) => s1
    | (s1, Some h) =>
      let s2 := elect A cfg h "Elect" false s1 in
      if crashed s2 then s2 else
      let surp := sub A (cvote_of A s2 h) (quota s2) in
      let s3 := for_ballots A (reweigh_transfer A mpls_keep (rew_wigm A) h surp) (top_is A h) s2 in
      if crashed s3 then s3 else
      let s4 := set_vote A h (quota s3) s3 in
      let s5 := set_surplus s4 (mpls_surplus false s4) in
      log TTransfer ("Transfer surplus: " ++ cname_of A s5 h ++ " (" ++ str A surp ++ ")") s5
    end
  end.

Definition mpls_defeat_low (s : est) : est :=
  match low_candidates A s with
  | None => set_crash s ValueError
  | Some (_, lows) =>
    match bt_simple "defeat low candidate" lows s with
    | (s1, None) => s1
    | (s1, Some l) =>
      let s2 := defeat A cfg l "Defeat low candidate" s1 in
      if crashed s2 then s2 else
      if seats_left A cfg s2 <? nlen (hopefuls A s2) then
        let s3 := for_ballots A (transfer A mpls_keep) (top_is A l) s2 in
        let s4 := set_vote A l V0 s3 in
        let s5 := set_surplus s4 (mpls_surplus false s4) in
        log TTransfer ("Transfer defeated: " ++ cname_of A s5 l) s5
      else s2
    end
  end.

Definition mpls : cmd :=
  Do (fun s => new_round A cfg (start_count (Ok integer_droop_quota) s)) ;;
  While (fun _ => true) (
    Do (fun s => log TCount "Count Votes" (set_surplus s (mpls_surplus true s))) ;;
    Ite (fun s => nseats <=? nlen (electeds A s) + nlen (hopeful_with_quota true s))
      (Do (fun s => fold_left (fun s c => elect A cfg (cid c) "Candidate at threshold" false s)
                              (hopeful_with_quota true s) s) ;; Break)
      Skip ;;
    Do (new_round A cfg) ;;
    Do mpls_find_defeats ;;
    Ite (fun s => nonempty (lv_batch s)) (Do mpls_defeat_batch ;; Continue) Skip ;;
    Ite (fun s => nonempty (hopeful_with_quota false s)) (Do mpls_elect_high ;; Continue) Skip ;;
    Ite (fun s => seats_left A cfg s <? nlen (hopefuls A s)) (Do mpls_defeat_low) Skip ;;
    Ite (fun s => nlen (hopefuls A s) <=? seats_left A cfg s) Break Skip) ;;
  Ite (fun s => nlen (hopefuls A s) <=? seats_left A cfg s)
    (Do (fun s => fold_left (fun s c => elect A cfg (cid c) "Elect remaining candidates" false s) (hopefuls A s) s))
    Skip ;;
  Ite (fun s => nonempty (hopefuls A s))
    (Do (fun s => fold_left (fun s c => defeat A cfg (cid c) "Defeat remaining candidates" s) (hopefuls A s) s))
    Skip.

End Rules.
