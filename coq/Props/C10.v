(* C10 -- The record depends on the ballots cast, not on how the file presents them.
   Proved: (a) layout -- two texts that lay the same tokens out with different Unicode whitespace / line
   breaks are read as the same profile (or rejected alike), hence counted alike (the count is a function of
   the profile); comments: the C15 comment lemmas.  (b) line order and multiplier split/merge: decided by the
   metamorphic oracle (re-presentation, byte equality of record/report/dump) and full-trace correspondence:
   _partial (the bag-equality simulation is an open obligation, DESIGN C10).  Open finding K7: the Guarded
   comparison statistics printed in the report do depend on multipliers. *)
From Coq Require Import ZArith List Bool.
From Droop Require Import Model.KernelBase Model.Profile Model.ProfileSpec Proofs.TokenizerLemmas Proofs.C15Proofs Proofs.C10Proofs.
Import ListNotations.

Theorem C10_layout_independent_partial : forall l1 tr1 l2 tr2,
  layout_ok true l1 -> is_ws tr1 -> layout_ok true l2 -> is_ws tr2 ->
  map snd l1 = map snd l2 -> hash_free (map snd l1) 0 false ->
  layout_text l1 tr1 <> [] -> layout_text l2 tr2 <> [] ->
  parse (layout_text l1 tr1) = parse (layout_text l2 tr2).
Proof. exact c10_layout. Qed.
Print Assumptions C10_layout_independent_partial.

(* (c) nicknames instead of numbers, token by token: in any reader state whose nickname table maps [nick] to candidate [cid],
   the nickname and ANY decimal spelling [d] of the number cid (any script, leading zeros) are resolved by getCid to the same
   candidate -- so a ranking, a [tie ...] or a [withdrawn ...] list written with nicknames is read as the one written with
   numbers.  (A token made of digits alone is always a number: [all_digits nick = false].)  That the two whole files are
   then read as the same profile is checked by the reader correspondence and the re-presentation oracle: _partial. *)
Theorem C10_nickname_and_number_name_the_same_candidate_partial : forall (st : pst) (nick d : ustr) (cid : Z),
  all_digits nick = false -> smap_get nick (s_nickCid st) = Some cid -> s_nickCid st <> [] ->
  denotes d cid -> (0 < cid <= s_nCand st)%Z ->
  getCid st nick = Ok cid /\ getCid st d = Ok cid.
Proof. exact nick_or_number. Qed.
Print Assumptions C10_nickname_and_number_name_the_same_candidate_partial.

(* (b) line order and multiplier split/merge, the part that is a statement about the profile alone: two presentations of the same
   bag of ballots ([same_bag]: lines permuted, a line with multiplier m1 + m2 split into two lines or two lines merged, any number
   of times) have the same number of ballots -- hence the same quota (C04) -- and give every candidate the same first-preference
   total, and the value standing with each candidate when a Gregory count starts is the same in the count's own arithmetic
   (Proofs/C10First.v).  That the whole records then agree is decided by the re-presentation oracle: _partial. *)
From Coq Require Import Permutation.
From Droop Require Import Model.Arith Model.Election Proofs.Zlike Proofs.Conserve Proofs.ConserveCount Proofs.Majority Proofs.C10First.
Theorem C10_presentations_agree_at_the_start_partial : forall pr pr' : Election.profile,
  same_bag (pr_ballots pr) (pr_ballots pr') ->
  ballot_total pr = ballot_total pr' /\ forall m, first_prefs pr m = first_prefs pr' m.
Proof. exact presentations_agree_at_the_start. Qed.
Print Assumptions C10_presentations_agree_at_the_start_partial.

Theorem C10_presentations_start_with_the_same_tallies_partial : forall A S (ZL : zlike A S), exact A = false -> forall pr pr' m,
  wf_profile pr -> wf_profile pr' -> same_bag (pr_ballots pr) (pr_ballots pr') ->
  stand A S ZL (mk_ballots A (pr_ballots pr)) m = stand A S ZL (mk_ballots A (pr_ballots pr')) m.
Proof. exact presentations_start_with_the_same_tallies. Qed.
Print Assumptions C10_presentations_start_with_the_same_tallies_partial.

(* the relation is not empty of interest: three lines in another order with one multiplier split *)
Example C10_same_bag_example :
  same_bag [(3, [1; 2]); (2, [2]); (1, [3; 2])]%Z [(1, [3; 2]); (1, [1; 2]); (2, [1; 2]); (2, [2])]%Z.
Proof.
  eapply sb_trans; [apply (sb_split [] [(2, [2]); (1, [3; 2])] 1 2 [1; 2])%Z|]. apply sb_perm. cbn [app].
  exact (Permutation_app_comm [(1, [1; 2]); (2, [1; 2]); (2, [2])]%Z [(1, [3; 2])]%Z).
Qed.
