(* C10 -- The record depends on the ballots cast, not on how the file presents them.
   Proved: (a) layout -- two texts that lay the same tokens out with different Unicode whitespace / line
   breaks are read as the same profile (or rejected alike), hence counted alike (the count is a function of
   the profile); comments: the C15 comment lemmas.  (b) line order and multiplier split/merge: decided by the
   metamorphic oracle (re-presentation, byte equality of record/report/dump) and full-trace correspondence:
   _partial (the bag-equality simulation is an open obligation, DESIGN C10).  Open finding K7: the Guarded
   comparison statistics printed in the report do depend on multipliers. *)
From Coq Require Import ZArith List Bool.
From Droop Require Import Model.KernelBase Model.Profile Model.ProfileSpec Proofs.TokenizerLemmas Proofs.C15Proofs Proofs.C10Proofs.
Import ListNotations.

Theorem C10_layout_independent_partial : forall l1 tr1 l2 tr2,
  layout_ok true l1 -> is_ws tr1 -> layout_ok true l2 -> is_ws tr2 ->
  map snd l1 = map snd l2 -> hash_free (map snd l1) 0 false ->
  layout_text l1 tr1 <> [] -> layout_text l2 tr2 <> [] ->
  parse (layout_text l1 tr1) = parse (layout_text l2 tr2).
Proof. exact c10_layout. Qed.
Print Assumptions C10_layout_independent_partial.
