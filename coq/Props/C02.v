(* C02 -- Votes are conserved at every step.  Proved per micro-operation (integer-carrier arithmetics:
   Fixed, integer, Guarded; laws in Proofs/Zlike.v): a transferred ballot's value is credited exactly once
   (to a candidate or to the non-transferable pile), a re-weighted ballot never gains value and loses less
   than two units, the re-weighted ballots of a candidate are worth at most the surplus; a Meek/Warren
   distribution conserves votes exactly.
   WHOLE RUNS (all six Gregory-family rules: wigm, wigm-prf, wigm-prf-batch, scotland, cfer, cfer-batch, mpls; Fixed, integer and Guarded with guard 0): in every state a count
   reaches without crashing, and in every snapshot it has recorded, tallies + non-transferable never exceed the
   ballots cast (C02_no_votes_created_whole_run; invariant and Hoare proof in Proofs/Conserve.v, ConserveCount.v).
   meek and warren (Fixed, integer, Guarded with any guard; strict and equal-rank ballots): every 'iterate' snapshot of a
   whole count has tallies + residual = ballots cast, exactly (C02_meek_iterations_conserve_whole_run; Proofs/MeekRun.v).
   meek-prf, QPQ and rational arithmetic: correspondence (values scope) + conservation oracle (_partial). *)
From Coq Require Import ZArith List Bool String.
From Droop Require Import Model.KernelBase Model.Arith Model.Prelude Model.State Model.Prims Model.RulesMeek Model.Election
  Proofs.Zlike Proofs.Gregory Proofs.MeekDist Proofs.Conserve Proofs.ConserveCount Proofs.MeekRun Proofs.MeekCount.
From Coq Require Import PArith Lia.
Import ListNotations.
Open Scope Z_scope.

Theorem C02_transfer_credits_once_partial : forall A S (ZL : zlike A S) keep (s : est A) (b : ballot A),
  NoDup (map (@cid A) (cands s)) ->
  let r := transfer A keep s b in
  total A S ZL (fst r) = total A S ZL s + raw ZL (bvote A (snd r)) /\
  bweight (snd r) = bweight b /\ bmult (snd r) = bmult b /\ brank (snd r) = brank b /\
  (bidx b <= bidx (snd r))%nat /\
  map (fun c => (cid c, cst c, cpend c)) (cands (fst r)) = map (fun c => (cid c, cst c, cpend c)) (cands s).
Proof. exact transfer_conserves. Qed.
Print Assumptions C02_transfer_credits_once_partial.

(* (weight, multiplier) pairs of the ballots standing with a candidate whose tally is v, surplus s: the
   re-weighted ballots floor(floor(w*s/S)*S/v) are worth at most s in total: no votes are created *)
Theorem C02_surplus_transfer_creates_no_votes : forall S s v l, 0 < S -> 0 < v -> 0 <= s ->
  Forall (fun x => 0 <= fst x /\ 0 <= snd x) l ->
  sumf (fun x => fst x * snd x) l = v ->
  sumf (fun x => fdiv S (fmul S (fst x) s) v * snd x) l <= s.
Proof. exact transfer_le. Qed.
Print Assumptions C02_surplus_transfer_creates_no_votes.

(* ... and each ballot paper loses less than two units in the last place (times v, in cross-multiplied form) *)
Theorem C02_loss_below_two_units : forall S w s v, 0 < S -> 0 < v -> 0 <= w -> 0 <= s ->
  w * s - S - v < fdiv S (fmul S w s) v * v.
Proof. exact one_ballot_loss. Qed.
Print Assumptions C02_loss_below_two_units.

Theorem C02_meek_distribution_exact_partial : forall A S (ZL : zlike A S) cfg (bs : list (ballot A)) cs res acc,
  NoDup (map (@cid A) cs) ->
  let r := fold_left (fun '(cs, res_, acc) b =>
      let '(cs', w', br') := dist_ballot A cfg cs (bmult b) (brank b) (V1 A) (bmult b) in
      (cs', add A res_ br', with_bres (with_bweight b w') br' :: acc)) bs (cs, res, acc) in
  tot A S ZL (fst (fst r)) + raw ZL (snd (fst r)) = tot A S ZL cs + raw ZL res + sum_mult A S ZL bs /\
  map (@cid A) (fst (fst r)) = map (@cid A) cs.
Proof. exact strict_fold_conserves. Qed.
Print Assumptions C02_meek_distribution_exact_partial.

(* the laws are those of the arithmetics the rules run on *)
Example C02_laws_inhabited : (exists z : zlike (Fixed 4 4) (10 ^ 4), True) /\ (exists z : zlike (Guarded 9 9 9 0) (10 ^ 18), True).
Proof. split; [exists (zlike_fixed 4 4 ltac:(discriminate))|exists (zlike_guarded 9 9 9 0 ltac:(discriminate) ltac:(discriminate))]; exact I. Qed.

(* ---- whole runs ---- *)
(* [total] = sum of the raw tallies of all candidates + raw non-transferable; [snap_ok B a]: the votes total and the
   non-transferable figure recorded in action a sum to at most B; [ballot_total pr] = number of ballot papers (sum of the
   multipliers of the non-empty ballots); raw units are 10^-p votes, S = 10^p *)
Theorem C02_no_votes_created_whole_run : forall A S (ZL : zlike A S) cfg,
  cf_method cfg = MWigm -> exact A = false -> 0 <= cf_nballots cfg -> 0 <= cf_nseats cfg ->
  forall r pr fuel s k, greg_rule r -> wf_profile pr ->
  exec (@crashed A) fuel (count_cmd A cfg r) (init_state A cfg pr) = Some (s, k) -> k <> Abort ->
  (total A S ZL s <= S * ballot_total pr) /\
  (Forall (snap_ok A S ZL (S * ballot_total pr)) (actions s)) /\
  (forall c, In c (cands s) -> 0 <= raw ZL (cvote c)).
Proof. exact count_no_votes_created. Qed.
Print Assumptions C02_no_votes_created_whole_run.

(* the hypotheses are satisfiable: a wigm-prf count of a well-formed profile under Fixed(4) ends normally *)
Definition c02_profile : profile :=
  mkProfile 2 6 [mkPcand 1 1 1 "A" "1" false false; mkPcand 2 2 2 "B" "2" false false; mkPcand 3 3 3 "C" "3" false true]
            [(3, [1; 2]); (2, [2]); (1, [3; 2])] [].
Example C02_whole_run_nonvacuous :
  wf_profile c02_profile /\ greg_rule RWigmPrf /\ exact (Fixed 4 4) = false /\ ballot_total c02_profile = 6 /\
  match exec (@crashed _) (2 ^ 10)%positive (count_cmd (Fixed 4 4) (mkConfig "wigm-prf" MWigm 2 6 false false false false 0) RWigmPrf)
             (init_state (Fixed 4 4) (mkConfig "wigm-prf" MWigm 2 6 false false false false 0) c02_profile) with
  | Some (_, Next) => True | _ => False end.
Proof.
  split; [|split; [right; left; reflexivity|split; [reflexivity|split; [reflexivity|vm_compute; exact I]]]].
  split; [repeat constructor; cbn; intuition (try discriminate; try lia)|].
  intros m r H. cbn in H. destruct H as [H|[H|[H|[]]]]; inversion H; subst; (split; [lia|]);
    intros c Hc; cbn in Hc;
    repeat (destruct Hc as [<-|Hc];
            [first [exists (mkPcand 1 1 1 "A" "1" false false); split; [cbn; tauto|split; reflexivity]
                   |exists (mkPcand 2 2 2 "B" "2" false false); split; [cbn; tauto|split; reflexivity]
                   |exists (mkPcand 3 3 3 "C" "3" false true); split; [cbn; tauto|split; reflexivity]]|]); contradiction.
Qed.

(* meek / warren: exact conservation at every recorded iteration of a whole count *)
Theorem C02_meek_iterations_conserve_whole_run : forall A S (ZL : zlike A S) cfg, cf_method cfg = MMeek ->
  forall pr fuel s k, wf_profile_m pr ->
  exec (@crashed A) fuel (count_cmd A cfg RMeek) (init_state A cfg pr) = Some (s, k) -> k <> Abort ->
  forall a sn, In a (actions s) -> a_tag a = TIterate -> a_snap a = Some sn ->
  raw ZL (as_votes sn) + match as_nt sn with Some x => raw ZL x | None => 0 end = S * (ballot_total pr + eballot_total pr).
Proof. exact count_meek_iterations. Qed.
Print Assumptions C02_meek_iterations_conserve_whole_run.

(* ---- ... for every ballot file the reader accepts ----
   [parse_file] is the reader model (C15/C16), [to_count_profile] what Election.__init__ reads off the parsed profile
   (Model/EndToEnd.v); the hypothesis "well-formed profile" of the whole-run theorems is discharged by the reader's
   theorem (Proofs/EndToEndLink.v).  ./check runs the composed pipeline (text -> reader model -> count model) against
   the implementation on the same files (correspondence group e2e). *)
From Droop Require Import Model.Profile Model.EndToEnd Proofs.EndToEndLink.

Theorem C02_no_votes_created_for_every_accepted_file : forall A S (ZL : zlike A S) cfg,
  cf_method cfg = MWigm -> exact A = false -> 0 <= cf_nballots cfg -> 0 <= cf_nseats cfg ->
  forall r text p fuel s k, greg_rule r -> parse_file text = Ok p ->
  exec (@crashed A) fuel (count_cmd A cfg r) (init_state A cfg (to_count_profile p)) = Some (s, k) -> k <> Abort ->
  (Gregory.total A S ZL s <= S * ballot_total (to_count_profile p)) /\
  (Forall (snap_ok A S ZL (S * ballot_total (to_count_profile p))) (actions s)) /\
  (forall c, In c (cands s) -> 0 <= raw ZL (cvote c)).
Proof. exact accepted_no_votes_created. Qed.
Print Assumptions C02_no_votes_created_for_every_accepted_file.

Theorem C02_meek_iterations_conserve_for_every_accepted_file : forall A S (ZL : zlike A S) cfg, cf_method cfg = MMeek ->
  forall text p fuel s k, parse_file text = Ok p ->
  exec (@crashed A) fuel (count_cmd A cfg RMeek) (init_state A cfg (to_count_profile p)) = Some (s, k) -> k <> Abort ->
  forall a sn, In a (actions s) -> a_tag a = TIterate -> a_snap a = Some sn ->
  raw ZL (as_votes sn) + match as_nt sn with Some x => raw ZL x | None => 0 end = S * p_nBallots p.
Proof. exact accepted_meek_iterations. Qed.
Print Assumptions C02_meek_iterations_conserve_for_every_accepted_file.
