(* C11 -- Neutrality: candidate numbering is irrelevant and withdrawn means absent.
   Decided by the metamorphic oracle (renumbering by a random permutation; withdrawn vs deleted: identical
   record by name) and the values-scope correspondence: _partial.  Machine-checked here are the facts the
   "withdrawn means absent" half rests on: every accepted profile has no withdrawn candidate in any ranking
   (so no ballot ever reaches one), a withdrawn candidate starts in state Withdrawn and is never among the
   hopeful candidates any selection draws from, and a count that ends normally leaves every candidate
   elected, defeated or withdrawn.  The equivariance simulations are open obligations (DESIGN C11). *)
From Coq Require Import ZArith List Bool String PArith.
From Droop Require Import Model.KernelBase Model.Arith Model.Prelude Model.State Model.Prims Model.Election
  Model.Profile Model.ProfileSpec Proofs.ParserLemmas Proofs.C11Proofs.
Import ListNotations.

Theorem C11_no_withdrawn_candidate_in_any_ranking_partial : forall text p, parse text = Ok p ->
  Forall (line_ok (p_nCand p) (p_withdrawn p)) (p_lines p) /\
  Forall (eline_ok (p_nCand p) (p_withdrawn p)) (p_linesEq p).
Proof. exact c11_rankings_free_of_withdrawn. Qed.
Print Assumptions C11_no_withdrawn_candidate_in_any_ranking_partial.

Theorem C11_withdrawn_never_hopeful_at_start_partial : forall A cfg pr c,
  In c (cands (init_state A cfg pr)) -> In c (hopefuls A (init_state A cfg pr)) ->
  exists p, In p (pr_cands pr) /\ pc_cid p = cid c /\ pc_withdrawn p = false.
Proof. exact c11_hopeful_at_start. Qed.
Print Assumptions C11_withdrawn_never_hopeful_at_start_partial.

(* "Candidate numbering is irrelevant", the part that is a statement about the profile alone ([renumber f pr]: every candidate id in
   the candidate list and in every ranking mapped through an injective f): the number of ballots -- hence the quota, C04 -- is
   unchanged, every candidate's first-preference total is carried over to its new number, and the profile stays well-formed, so
   every whole-run theorem (C01, C02, C04-C09) applies to the renumbered count as well.  "Withdrawn means absent", at the start: a
   withdrawn candidate is nobody's first preference.  (Proofs/C11First.v.)  That the whole records then correspond is decided by the
   renumbering / deletion oracle: _partial. *)
From Coq Require Import Lia.
From Droop Require Import Proofs.ConserveCount Proofs.Majority Proofs.C11First.
Theorem C11_renumbering_at_the_start_partial : forall f pr, injective f ->
  (wf_profile pr -> wf_profile (renumber f pr)) /\ ballot_total (renumber f pr) = ballot_total pr /\
  forall m, first_prefs (renumber f pr) (f m) = first_prefs pr m.
Proof. exact (fun f pr Hf => conj (renumber_wf f pr Hf) (conj (renumber_ballot_total f pr) (fun m => renumber_first_prefs f pr m Hf))). Qed.
Print Assumptions C11_renumbering_at_the_start_partial.

Theorem C11_withdrawn_candidate_has_no_first_preferences_partial : forall pr w, wf_profile pr ->
  (exists pc, In pc (pr_cands pr) /\ pc_cid pc = w /\ pc_withdrawn pc = true) -> first_prefs pr w = 0%Z.
Proof. exact withdrawn_no_first_prefs. Qed.
Print Assumptions C11_withdrawn_candidate_has_no_first_preferences_partial.

(* an injective renumbering exists that is not the identity (the premise is satisfiable): the swap of 1 and 2 *)
Example C11_swap_is_injective : injective (fun i => if (i =? 1)%Z then 2%Z else if (i =? 2)%Z then 1%Z else i).
Proof. intros a b. destruct (a =? 1)%Z eqn:A1, (b =? 1)%Z eqn:B1, (a =? 2)%Z eqn:A2, (b =? 2)%Z eqn:B2; lia. Qed.
