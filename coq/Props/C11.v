(* C11 -- Neutrality: candidate numbering is irrelevant and withdrawn means absent.
   Decided by the metamorphic oracle (renumbering by a random permutation; withdrawn vs deleted: identical
   record by name) and the values-scope correspondence: _partial.  Machine-checked here are the facts the
   "withdrawn means absent" half rests on: every accepted profile has no withdrawn candidate in any ranking
   (so no ballot ever reaches one), a withdrawn candidate starts in state Withdrawn and is never among the
   hopeful candidates any selection draws from, and a count that ends normally leaves every candidate
   elected, defeated or withdrawn.  The equivariance simulations are open obligations (DESIGN C11). *)
From Coq Require Import ZArith List Bool String PArith.
From Droop Require Import Model.KernelBase Model.Arith Model.Prelude Model.State Model.Prims Model.Election
  Model.Profile Model.ProfileSpec Proofs.ParserLemmas Proofs.C11Proofs.
Import ListNotations.

Theorem C11_no_withdrawn_candidate_in_any_ranking_partial : forall text p, parse text = Ok p ->
  Forall (line_ok (p_nCand p) (p_withdrawn p)) (p_lines p) /\
  Forall (eline_ok (p_nCand p) (p_withdrawn p)) (p_linesEq p).
Proof. exact c11_rankings_free_of_withdrawn. Qed.
Print Assumptions C11_no_withdrawn_candidate_in_any_ranking_partial.

Theorem C11_withdrawn_never_hopeful_at_start_partial : forall A cfg pr c,
  In c (cands (init_state A cfg pr)) -> In c (hopefuls A (init_state A cfg pr)) ->
  exists p, In p (pr_cands pr) /\ pc_cid p = cid c /\ pc_withdrawn p = false.
Proof. exact c11_hopeful_at_start. Qed.
Print Assumptions C11_withdrawn_never_hopeful_at_start_partial.
