(* C17 -- option precedence (force > cmd > file > default), what the record reports, unused and
   overridden options, and immunity of the statutory rules to supplied options (configuration level).
   Statements only.  The model (Model/Options.v, Model/ClassState.v) is tied to droop/options.py, the
   rules' options() methods, values.ArithmeticClass and the initialize() classmethods by the `options`
   correspondence driver (harness/options_driver.py, harness/props/c17.py). *)
From Coq Require Import ZArith List Bool String.
From Droop Require Import Model.KernelBase Model.Options Model.ClassState
  Proofs.OptionsProofs Proofs.ClassStateProofs Proofs.StatutoryProofs.
Import ListNotations.
Open Scope Z_scope.
Open Scope list_scope.

(* the effective value of every option name is the first of: forced by the rule, the caller's /
   command-line option, the ballot file's option, the rule's default (None if nobody has it) *)
Theorem C17_getopt_precedence : forall o k,
  getopt o k =
  match first_some [dget k (o_force o); dget k (o_cmd o); dget k (o_file o); dget k (o_default o)] with
  | Some v => v
  | None => VNone
  end.
Proof. exact getopt_precedence. Qed.
Print Assumptions C17_getopt_precedence.

(* the record reports the four layers (and `allowed`) as they are ... *)
Theorem C17_record_reports_layers : forall o,
  rec_cmd (record o) = o_cmd o /\ rec_file (record o) = o_file o /\ rec_default (record o) = o_default o /\
  rec_force (record o) = o_force o /\ rec_allowed (record o) = o_allowed o.
Proof. exact record_layers. Qed.
Print Assumptions C17_record_reports_layers.

(* ... and its summary of effective options, computed separately by four dict.update calls, has
   exactly the keys some layer has, with the value getopt() returns *)
Theorem C17_record_options_precedence : forall o k, wf_store o ->
  dget k (rec_options (record o)) =
  first_some [dget k (o_force o); dget k (o_cmd o); dget k (o_file o); dget k (o_default o)].
Proof. exact record_options_precedence. Qed.
Print Assumptions C17_record_options_precedence.

Theorem C17_record_agrees_with_getopt : forall o k, wf_store o ->
  match dget k (rec_options (record o)) with
  | Some v => getopt o k = v
  | None => getopt o k = VNone /\
            first_some [dget k (o_force o); dget k (o_cmd o); dget k (o_file o); dget k (o_default o)] = None
  end.
Proof. exact record_agrees_with_getopt. Qed.
Print Assumptions C17_record_agrees_with_getopt.

(* the stores an election builds are well formed (every layer a dict), and stay so *)
Theorem C17_stores_well_formed : forall cmd file k,
  wf_store (election_options (dict_of_list cmd) file) /\
  wf_store (snd (rule_options k (election_options (dict_of_list cmd) file))).
Proof. exact stores_well_formed. Qed.
Print Assumptions C17_stores_well_formed.

(* setopt: records the default (first one wins), forces when asked, never touches the supplied layers,
   returns the effective value, and raises UsageError exactly when the value is not among `allowed` *)
Theorem C17_setopt : forall k d f al o,
  let r := fst (setopt k d f al o) in let o' := snd (setopt k d f al o) in
  o_cmd o' = o_cmd o /\ o_file o' = o_file o /\
  o_default o' = dsetdefault k (normalize_val d) (o_default o) /\
  o_force o' = (if f then dset k (normalize_val d) (o_force o) else o_force o) /\
  o_allowed o' = (match al with [] => o_allowed o | _ => dset k al (o_allowed o) end) /\
  r = (if match al with [] => true | _ => existsb (fun x => oval_eqb x (getopt o' k)) al end
       then Ok (getopt o' k) else Raise UsageError).
Proof. exact setopt_spec. Qed.
Print Assumptions C17_setopt.

(* no rule's options() writes the caller's or the file's layer *)
Theorem C17_rules_keep_supplied_layers : forall k o,
  o_cmd (snd (rule_options k o)) = o_cmd o /\ o_file (snd (rule_options k o)) = o_file o.
Proof. exact rule_options_keeps_supplied. Qed.
Print Assumptions C17_rules_keep_supplied_layers.

(* the report names the unused options: supplied (cmd or file), not rule/path, never asked for *)
Theorem C17_unused : forall o k,
  (In k (unused o) <->
   (dmem k (o_file o) = true \/ dmem k (o_cmd o) = true) /\ k <> "rule"%string /\ k <> "path"%string /\
   dmem k (o_default o) = false) /\ sorted_lt (unused o).
Proof. exact unused_full. Qed.
Print Assumptions C17_unused.

(* ... and the overridden ones: forced, and supplied (cmd before file) with a different value *)
Theorem C17_overrides : forall o k, wf_store o ->
  (In k (overrides o) <->
   exists fv sv, dget k (o_force o) = Some fv /\
                 first_some [dget k (o_cmd o); dget k (o_file o)] = Some sv /\ oval_eqb sv fv = false) /\
  sorted_lt (overrides o).
Proof. exact overrides_full. Qed.
Print Assumptions C17_overrides.

(* statutory rules: whatever the four layers contain, if the effective rule name is a statutory one the
   construction succeeds and its result is the constant [statutory_spec name]: the Rule class, the rule's
   attributes, the arithmetic class, the sequence of class-attribute assignments; the supplied layers are
   untouched and the option names consulted have their forced values *)
Theorem C17_statutory_configuration_constant : forall name k ps c l fo,
  statutory_spec name = Some (k, ps, c, l, fo) ->
  forall o, getopt o "rule" = VStr name ->
  exists o', election_setup_w o = (Ok (k, ps, c), o', l) /\ o_cmd o' = o_cmd o /\ o_file o' = o_file o /\
             (forall kk v, In (kk, v) fo -> getopt o' kk = v).
Proof. exact statutory_setup. Qed.
Print Assumptions C17_statutory_configuration_constant.

(* hence two elections under the same statutory rule with arbitrary different options: same outcome
   (a success), same rule attributes and arithmetic class, identical class state *)
Theorem C17_statutory_immunity : forall name spec, statutory_spec name = Some spec ->
  forall o o2 g, getopt o "rule" = VStr name -> getopt o2 "rule" = VStr name ->
  fst (election_setup (o, g)) = fst (election_setup (o2, g)) /\
  (exists k ps c, fst (election_setup (o, g)) = Ok (k, ps, c)) /\
  (forall f, snd (snd (election_setup (o, g))) f = snd (snd (election_setup (o2, g))) f).
Proof. exact statutory_immune. Qed.
Print Assumptions C17_statutory_immunity.

(* every statutory rule name is covered *)
Example C17_statutory_names :
  map (fun n => match statutory_spec n with Some _ => true | None => false end)
      ["scotland"; "mpls"; "wigm-prf"; "wigm-prf-batch"; "cfer"; "cfer-batch"; "meek-prf"; "qpq"; "wigm"; "meek"; "warren"]%string
  = [true; true; true; true; true; true; true; true; false; false; false].
Proof. vm_compute. reflexivity. Qed.

(* non-vacuity: concrete stores.  allowed=(True, False) accepts 1 (True == 1) and refuses 2;
   a None supplied by the caller masks the file's value; a statutory rule ignores everything *)
Definition ex_store (cmd file : list (string * oval)) : store := election_options (dict_of_list cmd) (dict_of_list file).
Example C17_nonvacuous :
  fst (rule_options KWigm (ex_store [("rule", VStr "wigm"); ("integer_quota", VInt 1)] []))%string
    = Ok (mkParams (Some (VStr "wigm")) (Some (VInt 1)) (Some (VStr "none")) None None) /\
  fst (rule_options KWigm (ex_store [("rule", VStr "wigm"); ("integer_quota", VInt 2)] []))%string = Raise UsageError /\
  getopt (ex_store [("precision", VNone)] [("precision", VStr "6")])%string "precision" = VNone /\
  getopt (ex_store [] [("precision", VStr "06")])%string "precision" = VInt 6 /\
  unused (snd (rule_options KScotland (ex_store [("rule", VStr "scotland"); ("zeta", VInt 1)] [("precision", VInt 9)])))%string
    = ["zeta"%string] /\
  overrides (snd (rule_options KScotland (ex_store [("rule", VStr "scotland"); ("display", VInt 5)] [("precision", VInt 9)])))%string
    = ["precision"%string] /\
  fst (election_setup (ex_store [("rule", VStr "qpq"); ("arithmetic", VStr "rational"); ("guard", VStr "x")] [("display", VNone)], g_init))%string
    = Ok (KQpq, mkParams (Some (VStr "qpq")) None None None None, AGuarded).
Proof. vm_compute. repeat split; reflexivity. Qed.
