(* C20 -- A count is independent of whatever was counted before it in the process.
   The only process-global state a count reads is the class-level state of the three arithmetic
   classes, (re)assigned by initialize() at each Election construction.  In the model that state is
   the argument of the arithmetic instance: (precision, display) for Fixed, (display) for Rational --
   functions of the current options only -- and (precision, guard, display, stale) for Guarded, where
   [stale] is whatever an earlier election left in __scaledg (assigned only when display > precision).
   Theorem: the Guarded instance, hence every count run on it, does not depend on [stale]. *)
From Coq Require Import ZArith List Bool String.
From Droop Require Import Model.KernelBase Model.Arith Model.Prims Model.Election Proofs.ArithEq Proofs.CountEq.
From Droop Require Import Gen.GuardedKernels Model.Options Model.ClassState Proofs.OptionsProofs Proofs.ClassStateProofs.
Import ListNotations.
Open Scope Z_scope.
Open Scope list_scope.


Theorem C20_guarded_instance_history_independent : forall p g d s s', Guarded p g d s = Guarded p g d s'.
Proof. exact guarded_stale_irrelevant. Qed.
Print Assumptions C20_guarded_instance_history_independent.

Theorem C20_printing_history_independent : forall p g d s s' v,
  guarded_str (mk_guarded_cls p g d s) v = guarded_str (mk_guarded_cls p g d s') v.
Proof. exact stale_str. Qed.
Print Assumptions C20_printing_history_independent.

Theorem C20_every_count_history_independent : forall p g d s s' cfg fuel r pr,
  trace (Guarded p g d s) cfg fuel r pr = trace (Guarded p g d s') cfg fuel r pr.
Proof. exact trace_stale. Qed.
Print Assumptions C20_every_count_history_independent.

(* non-vacuity: a configuration in which the stale field IS read (display > precision) and one in which it is not *)
Example C20_concrete :
  str (Guarded 2 2 4 0) 12345 = "1.23_45"%string /\ str (Guarded 2 2 4 999) 12345 = "1.23_45"%string /\
  str (Guarded 2 2 2 0) 12345 = "1.23"%string /\ str (Guarded 2 2 2 999) 12345 = "1.23"%string.
Proof. vm_compute. repeat split. Qed.

(* ------------------------------------------------------------------------------------------------
   Where the arguments of those instances come from: Election construction on an explicit class state.
   [gstate] = every class attribute some initialize() assigns (None = still the class body's value);
   [election_setup] = Election.__init__ from `rulename = options.getopt('rule')` to
   `self.V = values.ArithmeticClass(self.options)`; [reads c g f] = attribute f may be read by an
   election whose arithmetic class is c (Model/ClassState.v).  Tied to the code by the history runs of
   harness/props/c20_options.py. *)

(* constructing an election on any two earlier class states g, g': the same outcome (the same
   exception, or the same rule / rule attributes / arithmetic class), the same option store, and the
   same value of every class attribute that can be read afterwards (stale attributes -- Guarded.__scaledg
   when display <= precision, Guarded.epsilon when guard > 0, the other classes' attributes -- may differ
   but are not read; which attributes are read is itself the same on both sides) *)
Theorem C20_construction_history_independent : forall o g g',
  let r := election_setup (o, g) in let r' := election_setup (o, g') in
  fst r = fst r' /\ fst (snd r) = fst (snd r') /\
  (forall k p c, fst r = Ok (k, p, c) ->
     forall f, reads c (snd (snd r)) f = true ->
               snd (snd r) f = snd (snd r') f /\ reads c (snd (snd r')) f = true).
Proof. exact setup_history_independent. Qed.
Print Assumptions C20_construction_history_independent.

(* in particular after any two histories of earlier elections (each constructed on its own option
   store; failed constructions leave their partial assignments behind), starting from a fresh interpreter;
   h' = [] is the fresh process, h = h' ++ [o] is "the same election again" *)
Theorem C20_after_any_histories : forall o h h',
  let r := election_setup (o, run_history h g_init) in let r' := election_setup (o, run_history h' g_init) in
  fst r = fst r' /\ fst (snd r) = fst (snd r') /\
  (forall k p c, fst r = Ok (k, p, c) ->
     forall f, reads c (snd (snd r)) f = true ->
               snd (snd r) f = snd (snd r') f /\ reads c (snd (snd r')) f = true).
Proof. exact run_history_independent. Qed.
Print Assumptions C20_after_any_histories.

(* the same statement for each initialize() classmethod on its own *)
Theorem C20_initialize_history_independent : forall (c : acls) o g g',
  let m := match c with AFixed => initialize_fixed | AGuarded => initialize_guarded | ARational => initialize_rational end in
  let r := run_w m (o, g) in let r' := run_w m (o, g') in
  fst r = fst r' /\ fst (snd r) = fst (snd r') /\
  (fst r = Ok tt -> forall f, reads c (snd (snd r)) f = true -> snd (snd r) f = snd (snd r') f).
Proof. exact initialize_history_independent. Qed.
Print Assumptions C20_initialize_history_independent.

(* a successful construction leaves exactly the class record the count model's arithmetic is built from
   (Arith.mk_fixed_cls / mk_guarded_cls); the only trace of the past is the stale __scaledg ... *)
Theorem C20_state_after_guarded : forall o o' l g, initialize_guarded o = (Ok tt, o', l) ->
  exists p gd d, 0 <= p /\ 0 <= gd /\ 0 <= d /\
    let s := apply_log l g in
    guarded_cls_of s = mk_guarded_cls p gd d (getZ g GdScaledg) /\
    getS s GdInfo = guarded_info p gd (if p + gd <? d then p + gd else d) /\
    getB s GdExact = negb (gd =? 0) /\ getB s GdQuasiExact = negb (gd =? 0) /\
    (gd = 0 -> getZ s GdEpsilon = 1) /\ getZ s GdMaxDiff = 0 /\ getZ s GdMinDiff = 10 ^ (p + gd) * 100.
Proof. exact guarded_state_after. Qed.
Print Assumptions C20_state_after_guarded.

Theorem C20_state_after_fixed : forall o o' l g, initialize_fixed o = (Ok tt, o', l) ->
  exists name p d, 0 <= p /\ 0 <= d <= p /\
    let s := apply_log l g in
    fixed_cls_of s = mk_fixed_cls p d /\ getS s FxName = name /\ getZ s FxEpsilon = 1 /\
    (name = (if (p =? 0)%Z then "integer"%string else "fixed"%string) -> getS s FxInfo = fixed_info p d).
Proof. exact fixed_state_after. Qed.
Print Assumptions C20_state_after_fixed.

(* ... and the only trace of the past, the stale __scaledg, is irrelevant: the arithmetic instance and
   printing by the theorems at the top of this file, and what the renderers read besides (name, info,
   report()) by this one *)
Theorem C20_guarded_meta_history_independent : forall p g d s s', GuardedMeta p g d s = GuardedMeta p g d s'.
Proof. exact guarded_meta_stale. Qed.
Print Assumptions C20_guarded_meta_history_independent.

(* non-vacuity: an earlier Guarded election with display > precision and guard = 0 leaves __scaledg and
   epsilon behind; a later Guarded election with display <= precision and guard > 0 keeps both stale
   values, reads neither, and agrees with the fresh process on everything it reads *)
Definition ex_hist : store :=
  election_options (dict_of_list [("rule", VStr "wigm"); ("arithmetic", VStr "guarded"); ("precision", VInt 2);
                                  ("guard", VInt 0); ("display", VInt 2)]%string) [].
Definition ex_hist2 : store :=
  election_options (dict_of_list [("rule", VStr "meek"); ("arithmetic", VStr "guarded"); ("precision", VInt 1);
                                  ("guard", VInt 3); ("display", VInt 3)]%string) [].
Definition ex_test : store :=
  election_options (dict_of_list [("rule", VStr "wigm"); ("arithmetic", VStr "guarded"); ("precision", VInt 4);
                                  ("guard", VInt 2); ("display", VInt 3)]%string) [].
Example C20_nonvacuous :
  let g1 := run_history [ex_hist; ex_hist2] g_init in
  let r := election_setup (ex_test, g1) in let r0 := election_setup (ex_test, g_init) in
  g1 GdScaledg = Some (FZ 100) /\ g1 GdEpsilon = Some (FZ 1) /\
  snd (snd r) GdScaledg = Some (FZ 100) /\ snd (snd r0) GdScaledg = None /\
  snd (snd r) GdEpsilon = Some (FZ 1) /\ snd (snd r0) GdEpsilon = None /\
  reads AGuarded (snd (snd r)) GdScaledg = false /\ reads AGuarded (snd (snd r)) GdEpsilon = false /\
  fst r = fst r0 /\
  forallb (fun f => negb (reads AGuarded (snd (snd r)) f) ||
                    match snd (snd r) f, snd (snd r0) f with
                    | Some (FZ a), Some (FZ b) => a =? b
                    | Some (FS a), Some (FS b) => String.eqb a b
                    | Some (FB a), Some (FB b) => Bool.eqb a b
                    | _, _ => false end) all_fields = true.
Proof. vm_compute. repeat split; reflexivity. Qed.
