(* C20 -- A count is independent of whatever was counted before it in the process.
   The only process-global state a count reads is the class-level state of the three arithmetic
   classes, (re)assigned by initialize() at each Election construction.  In the model that state is
   the argument of the arithmetic instance: (precision, display) for Fixed, (display) for Rational --
   functions of the current options only -- and (precision, guard, display, stale) for Guarded, where
   [stale] is whatever an earlier election left in __scaledg (assigned only when display > precision).
   Theorem: the Guarded instance, hence every count run on it, does not depend on [stale]. *)
From Coq Require Import ZArith List Bool String.
From Droop Require Import Model.KernelBase Model.Arith Model.Prims Model.Election Proofs.ArithEq Proofs.CountEq.
Open Scope Z_scope.

Theorem C20_guarded_instance_history_independent : forall p g d s s', Guarded p g d s = Guarded p g d s'.
Proof. exact guarded_stale_irrelevant. Qed.
Print Assumptions C20_guarded_instance_history_independent.

Theorem C20_printing_history_independent : forall p g d s s' v,
  guarded_str (mk_guarded_cls p g d s) v = guarded_str (mk_guarded_cls p g d s') v.
Proof. exact stale_str. Qed.
Print Assumptions C20_printing_history_independent.

Theorem C20_every_count_history_independent : forall p g d s s' cfg fuel r pr,
  trace (Guarded p g d s) cfg fuel r pr = trace (Guarded p g d s') cfg fuel r pr.
Proof. exact trace_stale. Qed.
Print Assumptions C20_every_count_history_independent.

(* non-vacuity: a configuration in which the stale field IS read (display > precision) and one in which it is not *)
Example C20_concrete :
  str (Guarded 2 2 4 0) 12345 = "1.23_45"%string /\ str (Guarded 2 2 4 999) 12345 = "1.23_45"%string /\
  str (Guarded 2 2 2 0) 12345 = "1.23"%string /\ str (Guarded 2 2 2 999) 12345 = "1.23"%string.
Proof. vm_compute. repeat split. Qed.
