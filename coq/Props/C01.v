(* C01 -- Every count terminates with the seats filled and every candidate decided.
   Proved (whole runs, every rule, arithmetic, profile, fuel): a count that ends normally leaves no
   candidate hopeful -- every candidate is elected, defeated or withdrawn (never two of these: the status
   is a single value).  Termination within the stated fuel and the exact number of winners are decided by
   the correspondence + oracle (partial); the crash outcomes of meek/warren under guarded arithmetic are
   exhibited on the model (open findings K2, K14; the IndexError K3 is fixed, F11). *)
From Coq Require Import ZArith List Bool String PArith.
From Droop Require Import Model.KernelBase Model.Arith Model.Prelude Model.State Model.Prims Model.Election
  Proofs.CmdMeta Proofs.Decided Proofs.Forward Proofs.ForwardCount Proofs.Zlike Proofs.Terminate Proofs.TerminateMeek Proofs.TerminateQpq Proofs.Conserve Proofs.ConserveCount Proofs.Winners Proofs.MeekRun Proofs.MeekCount.
Import ListNotations.
Open Scope Z_scope.

Theorem C01_everyone_decided_partial : forall A cfg r pr fuel s,
  exec (@crashed A) fuel (count_cmd A cfg r) (init_state A cfg pr) = Some (s, Next) ->
  hopefuls A s = [] /\
  forall c, In c (cands s) -> cst c = Elected \/ cst c = Defeated \/ cst c = Withdrawn.
Proof. exact count_decided. Qed.
Print Assumptions C01_everyone_decided_partial.

(* no withdrawn candidate is ever elected (or anything but withdrawn), and nobody becomes withdrawn: every rule
   except QPQ, counts that end normally; positionwise, for every snapshot and for the final statuses *)
Theorem C01_withdrawn_stay_withdrawn_partial : forall A cfg r pr fuel s,
  not_qpq r -> NoDup (map pc_cid (pr_cands pr)) ->
  exec (@crashed A) fuel (count_cmd A cfg r) (init_state A cfg pr) = Some (s, Next) ->
  Forall2 (fun a b => fst a = fst b /\ (fst (snd a) = Withdrawn <-> fst (snd b) = Withdrawn))
          (stl A (cands (init_state A cfg pr))) (stl A (cands s)).
Proof. exact (fun A cfg r pr fuel s H1 H2 H3 => fwdl_withdrawn _ _ (proj2 (proj2 (count_forward A cfg r pr fuel s H1 H2 H3)))). Qed.
Print Assumptions C01_withdrawn_stay_withdrawn_partial.

(* each rule separately, as a Hoare triple: whatever the state before, a normal end leaves nobody hopeful *)
Theorem C01_rule_settles_everyone : forall A cfg r,
  triple (est A) (@crashed A) (TT A) (rule_cmd A cfg r) (NoHop A) (TT A) (TT A).
Proof. exact rule_decided. Qed.
Print Assumptions C01_rule_settles_everyone.

(* TERMINATION (first clause), proved for the whole Gregory family -- wigm (any options but defeat_batch=zero), wigm-prf,
   wigm-prf-batch, scotland, cfer, cfer-batch and mpls -- under EVERY arithmetic (fixed, integer, guarded with any guard, rational) and every profile with distinct candidate
   ids: once the fuel exceeds twice the number of candidates the model never answers OutOfFuel -- the count ends, normally
   or with one of the modelled exceptions.  (Measure: 2 x hopeful + transfer-pending candidates; statuses only move
   forward, and every pass of the main loop that neither raises nor leaves the loop transfers a surplus or excludes
   somebody; Proofs/Terminate.v.)  [term_rule cfg r] = r is wigm with cf_batch_zero cfg = false, or wigm-prf, scotland, cfer or mpls (the -batch variants are the same commands with cf_batch cfg = true). *)
Theorem C01_gregory_counts_terminate_partial : forall A cfg r pr fuel,
  term_rule cfg r -> NoDup (map pc_cid (pr_cands pr)) ->
  (2 * List.length (pr_cands pr) < Pos.to_nat fuel)%nat ->
  exists s k, exec (@crashed A) fuel (count_cmd A cfg r) (init_state A cfg pr) = Some (s, k).
Proof. exact count_terminates. Qed.
Print Assumptions C01_gregory_counts_terminate_partial.

(* wigm with defeat_batch=zero too: the zero-vote batch is non-empty as soon as the arithmetic's == is reflexive, which it is
   in all three families (fixed/integer, guarded with any guard, rational) *)
Theorem C01_wigm_counts_terminate_any_option_partial : forall A cfg pr fuel, (forall x : T A, eqv A x x = true) ->
  NoDup (map pc_cid (pr_cands pr)) -> (2 * List.length (pr_cands pr) < Pos.to_nat fuel)%nat ->
  exists s k, exec (@crashed A) fuel (count_cmd A cfg RWigm) (init_state A cfg pr) = Some (s, k).
Proof. exact wigm_count_terminates_any_option. Qed.
Print Assumptions C01_wigm_counts_terminate_any_option_partial.
Theorem C01_equality_is_reflexive : (forall p d x, eqv (Fixed p d) x x = true) /\ (forall dp x, eqv (Rational dp) x x = true) /\
  (forall p g d st x, 0 <= g -> eqv (Guarded p g d st) x x = true).
Proof. exact (conj eqv_refl_fixed (conj eqv_refl_rational eqv_refl_guarded)). Qed.
Print Assumptions C01_equality_is_reflexive.

(* ... and for meek, warren and meek-prf under the arithmetics with exact comparisons (Fixed, integer, Guarded with guard 0;
   S = 10^p raw units per vote): the iteration inside a round ends because it only goes on while the total surplus -- a
   non-negative raw integer -- strictly decreases, the rounds end because each one elects or excludes somebody.  Fuel bound:
   the raw ballot count (the largest surplus an iteration can start from) and the number of candidates. *)
Theorem C01_meek_counts_terminate_partial : forall A S (ZL : zlike A S) cfg, exact A = false ->
  forall pr fuel, NoDup (map pc_cid (pr_cands pr)) ->
  (Z.to_nat (cf_nballots cfg * S) < Pos.to_nat fuel)%nat -> (List.length (pr_cands pr) < Pos.to_nat fuel)%nat ->
  exists s k, exec (@crashed A) fuel (count_cmd A cfg RMeek) (init_state A cfg pr) = Some (s, k).
Proof. exact meek_count_terminates. Qed.
Print Assumptions C01_meek_counts_terminate_partial.

Theorem C01_meek_prf_counts_terminate_partial : forall A S (ZL : zlike A S) cfg, exact A = false ->
  forall pr fuel, NoDup (map pc_cid (pr_cands pr)) ->
  (Datatypes.S (Z.to_nat (cf_nballots cfg * S)) < Pos.to_nat fuel)%nat -> (List.length (pr_cands pr) < Pos.to_nat fuel)%nat ->
  exists s k, exec (@crashed A) fuel (count_cmd A cfg RMeekPrf) (init_state A cfg pr) = Some (s, k).
Proof. exact meek_prf_count_terminates. Qed.
Print Assumptions C01_meek_prf_counts_terminate_partial.

(* ... and QPQ under every arithmetic.  QPQ restarts after each exclusion (every winner goes back to hopeful), so the
   measure is lexicographic: (N+1) x candidates still in the running + (N if a restart is pending, else the hopefuls). *)
Theorem C01_qpq_counts_terminate_partial : forall A cfg pr fuel, NoDup (map pc_cid (pr_cands pr)) ->
  ((List.length (pr_cands pr) + 1) * (List.length (pr_cands pr) + 1) < Pos.to_nat fuel)%nat ->
  exists s k, exec (@crashed A) fuel (count_cmd A cfg RQpq) (init_state A cfg pr) = Some (s, k).
Proof. exact qpq_count_terminates. Qed.
Print Assumptions C01_qpq_counts_terminate_partial.

(* THE NUMBER OF WINNERS (second clause; wigm, wigm-prf, scotland and cfer below): a wigm or wigm-prf count (without sure-loser batches; Fixed, integer or Guarded with
   guard 0; the driver hands the count the profile's own ballot count) that ends normally has elected exactly
   min(seats, candidates that are not withdrawn).  Upper bound: C09's seat-bound theorem.  Lower bound: nobody is excluded
   unless more candidates are still in the running than there are seats, and the closing step elects the remaining
   hopefuls while seats are free (Proofs/Winners.v).  [win_rule cfg r] = r is wigm with cf_batch_zero cfg = false, or
   wigm-prf with cf_batch cfg = false. *)
Theorem C01_exact_number_of_winners_partial : forall A S (ZL : zlike A S) cfg,
  cf_method cfg = MWigm -> exact A = false -> 0 <= cf_nballots cfg -> 0 <= cf_nseats cfg ->
  forall r pr fuel s k, win_rule cfg r -> wf_profile pr -> cf_nballots cfg = ballot_total pr ->
  exec (@crashed A) fuel (count_cmd A cfg r) (init_state A cfg pr) = Some (s, k) -> k <> Abort ->
  nlen (electeds A s) = Z.min (cf_nseats cfg) (nlen (eligibles A s)).
Proof. exact count_winners. Qed.
Print Assumptions C01_exact_number_of_winners_partial.

(* ... and the Scottish rule (its closing steps are "elect all remaining if they fit, then defeat the rest") *)
Theorem C01_exact_number_of_winners_scotland_partial : forall A S (ZL : zlike A S) cfg,
  cf_method cfg = MWigm -> exact A = false -> 0 <= cf_nballots cfg -> 0 <= cf_nseats cfg ->
  forall pr fuel s k, wf_profile pr -> cf_nballots cfg = ballot_total pr ->
  exec (@crashed A) fuel (count_cmd A cfg RScotland) (init_state A cfg pr) = Some (s, k) -> k <> Abort ->
  nlen (electeds A s) = Z.min (cf_nseats cfg) (nlen (eligibles A s)).
Proof. exact count_winners_scotland. Qed.
Print Assumptions C01_exact_number_of_winners_scotland_partial.

(* ... and the CfER rule without sure-loser batches (rule name "cfer"; "cfer-batch" sets cf_batch): it excludes one candidate
   at a time and only while more candidates are in the running than seats, and each of its three exits -- everybody fits in
   round 1, the seats are filled, everybody left fits after an exclusion -- elects enough (Proofs/WinnersCfer.v) *)
From Droop Require Import Proofs.WinnersCfer.
Theorem C01_exact_number_of_winners_cfer_partial : forall A S (ZL : zlike A S) cfg,
  cf_method cfg = MWigm -> exact A = false -> 0 <= cf_nballots cfg -> 0 <= cf_nseats cfg ->
  forall pr fuel s k, cf_batch cfg = false -> wf_profile pr -> cf_nballots cfg = ballot_total pr ->
  exec (@crashed A) fuel (count_cmd A cfg RCfer) (init_state A cfg pr) = Some (s, k) -> k <> Abort ->
  nlen (electeds A s) = Z.min (cf_nseats cfg) (nlen (eligibles A s)).
Proof. exact count_winners_cfer. Qed.
Print Assumptions C01_exact_number_of_winners_cfer_partial.

(* ... and wigm-prf WITH sure-loser batches (wigm-prf-batch): no hypothesis on cf_batch.  A batch stops at "hopefuls minus seats
   left" candidates (C07_batch_of_sure_losers_partial), its members are distinct hopefuls, so the seats can still be filled
   after it (Proofs/WinnersBatch.v) *)
From Droop Require Import Proofs.WinnersBatch.
Theorem C01_exact_number_of_winners_prf_batch_partial : forall A S (ZL : zlike A S) cfg,
  cf_method cfg = MWigm -> exact A = false -> 0 <= cf_nballots cfg -> 0 <= cf_nseats cfg ->
  forall pr fuel s k, wf_profile pr -> cf_nballots cfg = ballot_total pr ->
  exec (@crashed A) fuel (count_cmd A cfg RWigmPrf) (init_state A cfg pr) = Some (s, k) -> k <> Abort ->
  nlen (electeds A s) = Z.min (cf_nseats cfg) (nlen (eligibles A s)).
Proof. exact count_winners_prf_any. Qed.
Print Assumptions C01_exact_number_of_winners_prf_batch_partial.

(* ... and the parametric wigm rule WITH defeat_batch=zero: no hypothesis on cf_batch_zero.  The zero batch is only taken when
   "hopefuls - batch >= seats left to fill" (C07_zero_batch_leaves_enough_candidates), so the seats can still be filled after it
   (Proofs/WinnersZero.v) *)
From Droop Require Import Proofs.WinnersZero.
Theorem C01_exact_number_of_winners_wigm_zero_batch_partial : forall A S (ZL : zlike A S) cfg,
  cf_method cfg = MWigm -> exact A = false -> 0 <= cf_nballots cfg -> 0 <= cf_nseats cfg ->
  forall pr fuel s k, wf_profile pr -> cf_nballots cfg = ballot_total pr ->
  exec (@crashed A) fuel (count_cmd A cfg RWigm) (init_state A cfg pr) = Some (s, k) -> k <> Abort ->
  nlen (electeds A s) = Z.min (cf_nseats cfg) (nlen (eligibles A s)).
Proof. exact count_winners_wigm_any. Qed.
Print Assumptions C01_exact_number_of_winners_wigm_zero_batch_partial.

(* ... and CfER WITH sure-loser batches (cfer-batch): no hypothesis on cf_batch.  The scan of cfer.py's batchDefeat only proposes a
   prefix of the hopefuls in ascending order of tally, and only while "the others + elected >= seats"
   (C07_cfer_batch_leaves_enough_candidates; Proofs/WinnersCferBatch.v) *)
From Droop Require Import Proofs.WinnersCferBatch.
Theorem C01_exact_number_of_winners_cfer_batch_partial : forall A S (ZL : zlike A S) cfg,
  cf_method cfg = MWigm -> exact A = false -> 0 <= cf_nballots cfg -> 0 <= cf_nseats cfg ->
  forall pr fuel s k, wf_profile pr -> cf_nballots cfg = ballot_total pr ->
  exec (@crashed A) fuel (count_cmd A cfg RCfer) (init_state A cfg pr) = Some (s, k) -> k <> Abort ->
  nlen (electeds A s) = Z.min (cf_nseats cfg) (nlen (eligibles A s)).
Proof. exact count_winners_cfer_any. Qed.
Print Assumptions C01_exact_number_of_winners_cfer_batch_partial.

(* ... and QPQ, under EVERY arithmetic (no hypothesis on the value class): the loop runs only while a seat is free and more candidates
   are in the running than seats are left, a step elects or excludes exactly one candidate, a restart (which un-elects everybody)
   keeps everybody in the running, and the closing steps elect the remaining hopefuls when they fit (Proofs/QpqSeats.v,
   Proofs/QpqWinners.v).  With this the exact number of winners is proved for every rule except Minneapolis and the Meek family --
   where it is false for meek and meek-prf under fixed-point arithmetic (findings K20-K23, refuted in Props/C09.v). *)
From Droop Require Import Proofs.QpqWinners.
Theorem C01_exact_number_of_winners_qpq : forall A cfg pr fuel s k,
  0 <= cf_nseats cfg -> NoDup (map pc_cid (pr_cands pr)) ->
  exec (@crashed A) fuel (count_cmd A cfg RQpq) (init_state A cfg pr) = Some (s, k) -> k <> Abort ->
  nlen (electeds A s) = Z.min (cf_nseats cfg) (nlen (eligibles A s)).
Proof. exact count_winners_qpq. Qed.
Print Assumptions C01_exact_number_of_winners_qpq.

(* NO WITHDRAWN CANDIDATE IS CREDITED WITH A VOTE (third clause), at the end of every count that ends without a crash:
   the Gregory family (part of the whole-run invariant of C02/C06) and meek / warren (candidates that are neither hopeful
   nor elected hold nothing). *)
Theorem C01_withdrawn_hold_no_votes_gregory_partial : forall A S (ZL : zlike A S) cfg,
  cf_method cfg = MWigm -> exact A = false -> 0 <= cf_nballots cfg -> 0 <= cf_nseats cfg ->
  forall r pr fuel s k, greg_rule r -> wf_profile pr ->
  exec (@crashed A) fuel (count_cmd A cfg r) (init_state A cfg pr) = Some (s, k) -> k <> Abort ->
  forall c, In c (cands s) -> cst c = Withdrawn -> raw ZL (cvote c) = 0.
Proof.
  exact (fun A S ZL cfg H1 H2 H3 H4 r pr fuel s k Hr Hwf He Hk =>
           g_wd A S ZL _ s (proj1 (count_conserves A S ZL cfg H1 H2 H3 H4 r pr fuel s k Hr Hwf He Hk))).
Qed.
Print Assumptions C01_withdrawn_hold_no_votes_gregory_partial.

Theorem C01_withdrawn_hold_no_votes_meek_partial : forall A S (ZL : zlike A S) cfg, cf_method cfg = MMeek ->
  forall pr fuel s k, wf_profile_m pr ->
  exec (@crashed A) fuel (count_cmd A cfg RMeek) (init_state A cfg pr) = Some (s, k) -> k <> Abort ->
  forall c, In c (cands s) -> cst c = Withdrawn -> raw ZL (cvote c) = 0.
Proof.
  exact (fun A S ZL cfg Hm pr fuel s k Hwf He Hk c Hc Hw =>
           mi_z0 A S ZL cfg _ s (count_meek_inv A S ZL cfg Hm pr fuel s k Hwf He Hk) c Hc
                 ltac:(unfold is_he, in_state; rewrite Hw; reflexivity)).
Qed.
Print Assumptions C01_withdrawn_hold_no_votes_meek_partial.

(* the full statement is FALSE for meek under guarded arithmetic with guard > 0: the model (which agrees with the
   code on this input, corpus K2) ends in a ZeroDivisionError.  5 candidates, 4 seats, ballots "1: 3 1 5", "5: 5". *)
Definition k2_profile : profile :=
  mkProfile 4 6
    [mkPcand 1 1 1 "A" "1" false false; mkPcand 2 2 2 "B" "2" false false; mkPcand 3 3 3 "C" "3" false false;
     mkPcand 4 4 4 "D" "4" false false; mkPcand 5 5 5 "E" "5" false false]
    [(1, [3; 1; 5]); (5, [5])] [].
Definition k2_cfg : config := mkConfig "meek" MMeek 4 6 false false true false 6.
Example C01_meek_guarded_crash_refuted :
  match run_count (Guarded 9 3 9 0) k2_cfg (2 ^ 20)%positive RMeek k2_profile with
  | Crashed _ ZeroDivisionError => True
  | _ => False
  end.
Proof. vm_compute. exact I. Qed.

(* non-vacuity of the theorem: a small count that does end normally *)
Example C01_concrete :
  match run_count (Fixed 4 4) (mkConfig "wigm-prf" MWigm 2 6 false false false false 0) (2 ^ 10)%positive RWigmPrf
          (mkProfile 2 6 [mkPcand 1 1 1 "A" "1" false false; mkPcand 2 2 2 "B" "2" false false; mkPcand 3 3 3 "C" "3" false false]
                     [(3, [1; 2]); (2, [2]); (1, [3; 2])] []) with
  | Done s true => map (@cid _) (electeds _ s) = [1; 2] /\ map (@cid _) (defeateds _ s) = [3]
  | _ => False
  end.
Proof. vm_compute. split; reflexivity. Qed.

(* ... and the cfer and wigm-prf-batch winner theorems have inhabitants too: the same profile (its well-formedness is shown in
   Props/C02.v, C02_whole_run_nonvacuous, for the profile with C withdrawn), two seats, ends normally with two winners *)
Example C01_concrete_cfer_and_prf_batch :
  Forall (fun rc => match run_count (Fixed 4 4) (snd rc) (2 ^ 10)%positive (fst rc)
          (mkProfile 2 6 [mkPcand 1 1 1 "A" "1" false false; mkPcand 2 2 2 "B" "2" false false; mkPcand 3 3 3 "C" "3" false false]
                     [(3, [1; 2]); (2, [2]); (1, [3; 2])] []) with
  | Done s true => map (@cid _) (electeds _ s) = [1; 2] /\ map (@cid _) (defeateds _ s) = [3]
  | _ => False
  end) [(RCfer, mkConfig "cfer" MWigm 2 6 false false false false 0); (RWigmPrf, mkConfig "wigm-prf-batch" MWigm 2 6 false false true false 0);
       (RCfer, mkConfig "cfer-batch" MWigm 2 6 false false true false 0); (RWigm, mkConfig "wigm" MWigm 2 6 false true false false 0)].
Proof. apply Forall_cons; [vm_compute; split; reflexivity|]. apply Forall_cons; [vm_compute; split; reflexivity|].
  apply Forall_cons; [vm_compute; split; reflexivity|]. apply Forall_cons; [vm_compute; split; reflexivity|]. apply Forall_nil. Qed.

(* ---- ... for every ballot file the reader accepts (see Props/C02.v for the reading of parse_file / to_count_profile):
   candidate ids are distinct by the reader's theorem, so the only hypothesis left is the fuel bound ---- *)
From Droop Require Import Model.Profile Model.EndToEnd Proofs.EndToEndLink.
Theorem C01_gregory_counts_terminate_for_every_accepted_file : forall A cfg r text p fuel,
  term_rule cfg r -> parse_file text = Ok p ->
  (2 * List.length (cids_upto (p_nCand p)) < Pos.to_nat fuel)%nat ->
  exists s k, exec (@crashed A) fuel (count_cmd A cfg r) (init_state A cfg (to_count_profile p)) = Some (s, k).
Proof. exact (fun A cfg => accepted_gregory_terminates A cfg). Qed.
Print Assumptions C01_gregory_counts_terminate_for_every_accepted_file.

Theorem C01_exact_number_of_winners_for_every_accepted_file : forall A S (ZL : zlike A S) cfg,
  cf_method cfg = MWigm -> exact A = false -> 0 <= cf_nseats cfg ->
  forall r text p fuel s k, win_rule cfg r -> parse_file text = Ok p -> p_linesEq p = [] -> cf_nballots cfg = p_nBallots p ->
  exec (@crashed A) fuel (count_cmd A cfg r) (init_state A cfg (to_count_profile p)) = Some (s, k) -> k <> Abort ->
  nlen (electeds A s) = Z.min (cf_nseats cfg) (nlen (eligibles A s)).
Proof. exact accepted_winners. Qed.
Print Assumptions C01_exact_number_of_winners_for_every_accepted_file.

Theorem C01_exact_number_of_winners_cfer_for_every_accepted_file : forall A S (ZL : zlike A S) cfg,
  cf_method cfg = MWigm -> exact A = false -> 0 <= cf_nseats cfg -> cf_batch cfg = false ->
  forall text p fuel s k, parse_file text = Ok p -> p_linesEq p = [] -> cf_nballots cfg = p_nBallots p ->
  exec (@crashed A) fuel (count_cmd A cfg RCfer) (init_state A cfg (to_count_profile p)) = Some (s, k) -> k <> Abort ->
  nlen (electeds A s) = Z.min (cf_nseats cfg) (nlen (eligibles A s)).
Proof. exact accepted_winners_cfer. Qed.
Print Assumptions C01_exact_number_of_winners_cfer_for_every_accepted_file.

(* wigm with any defeat_batch option, wigm-prf and cfer with or without sure-loser batches, for every accepted file *)
Theorem C01_exact_number_of_winners_any_batch_option_for_every_accepted_file : forall A S (ZL : zlike A S) cfg,
  cf_method cfg = MWigm -> exact A = false -> 0 <= cf_nseats cfg ->
  forall r, r = RWigm \/ r = RWigmPrf \/ r = RCfer ->
  forall text p fuel s k, parse_file text = Ok p -> p_linesEq p = [] -> cf_nballots cfg = p_nBallots p ->
  exec (@crashed A) fuel (count_cmd A cfg r) (init_state A cfg (to_count_profile p)) = Some (s, k) -> k <> Abort ->
  nlen (electeds A s) = Z.min (cf_nseats cfg) (nlen (eligibles A s)).
Proof. exact accepted_winners_any. Qed.
Print Assumptions C01_exact_number_of_winners_any_batch_option_for_every_accepted_file.
