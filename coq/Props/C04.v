(* C04 -- The quota is the prescribed one.  Proved for the integer-carrier arithmetics (raw units, S = 10^p):
   the quota each rule's calcQuota() computes; and for every arithmetic: the election step of the Gregory-family rules
   is complete -- right after it no hopeful candidate holds the quota (C04_election_step_elects_every_quota_holder), which
   with the rules' step order (election precedes any surplus transfer or exclusion in a round) is the clause "whoever
   reaches the quota is elected at the next election step".  That the step order is the one the code has, and the Meek
   family / QPQ / Minneapolis cases: quota-scope correspondence + oracle (_partial). *)
From Coq Require Import ZArith List Bool String.
From Droop Require Import Model.KernelBase Model.Arith Model.State Model.Prims Model.RulesGregory Model.RulesMeek
  Proofs.Zlike Proofs.Quota Proofs.ElectStep.
Open Scope Z_scope.

(* PRF WIGM A.1, CfER, and the parametric WIGM rule under fixed-point arithmetic:
   ballots/(seats+1) truncated at p places plus one unit in the last place *)
Theorem C04_droop_quota_fixed_point : forall A S (ZL : zlike A S) cfg, 0 <= cf_nseats cfg -> raw ZL (epsilon A) = 1 ->
  exists q, droop_quota_eps A cfg = Ok q /\ raw ZL q = cf_nballots cfg * S / (cf_nseats cfg + 1) + 1.
Proof. exact droop_quota_eps_value. Qed.
Print Assumptions C04_droop_quota_fixed_point.

(* Scottish 46, Minneapolis 167.20 Threshold: floor(ballots/(seats+1)) + 1 whole votes *)
Theorem C04_integer_quota : forall A S (ZL : zlike A S) cfg,
  raw ZL (integer_droop_quota A cfg) = (cf_nballots cfg / (cf_nseats cfg + 1) + 1) * S.
Proof. exact integer_quota_value. Qed.
Print Assumptions C04_integer_quota.

Theorem C04_wigm_quota : forall A S (ZL : zlike A S) cfg, 0 <= cf_nseats cfg -> raw ZL (epsilon A) = 1 -> exact A = false ->
  exists q, wigm_quota A cfg = Ok q /\
            raw ZL q = if cf_integer_quota cfg then (1 + cf_nballots cfg / (cf_nseats cfg + 1)) * S
                       else cf_nballots cfg * S / (cf_nseats cfg + 1) + 1.
Proof. exact wigm_quota_value. Qed.
Print Assumptions C04_wigm_quota.

(* Meek family: recomputed the same way from the votes still credited *)
Theorem C04_meek_quota : forall A S (ZL : zlike A S) cfg, 0 <= cf_nseats cfg -> raw ZL (epsilon A) = 1 ->
  forall st : est A, exact A = false ->
  exists q, meek_quota A cfg st = Ok q /\ raw ZL q = raw ZL (votes st) * S / ((cf_nseats cfg + 1) * S) + 1.
Proof. exact meek_quota_value. Qed.
Print Assumptions C04_meek_quota.

(* the election step "for c in hopefuls by vote, descending, if hasQuota(c): c.elect(...)" leaves no hopeful candidate
   with the quota: hq is the rule's hasQuota (vote >= quota; vote > quota under exact arithmetic) *)
Theorem C04_election_step_elects_every_quota_holder : forall A cfg (hq : est A -> cand A -> bool) pend msg (s : est A),
  (forall s1 s2 c, quota s1 = quota s2 -> hq s1 c = hq s2 c) ->
  forall c, In c (cands (elect_with_quota A cfg hq pend msg (fun _ => true) s)) -> is_hopeful A c = true ->
  hq (elect_with_quota A cfg hq pend msg (fun _ => true) s) c = false.
Proof. exact elect_step_complete. Qed.
Print Assumptions C04_election_step_elects_every_quota_holder.

(* the two tests the rules use depend on the quota and the candidate only *)
Theorem C04_quota_tests_are_local : forall A (s1 s2 : est A) c, quota s1 = quota s2 ->
  ge_quota A s1 c = ge_quota A s2 c /\ has_quota_exact A s1 c = has_quota_exact A s2 c.
Proof. exact (fun A s1 s2 c E => conj (ge_quota_ext A s1 s2 c E) (has_quota_exact_ext A s1 s2 c E)). Qed.
Print Assumptions C04_quota_tests_are_local.

Example C04_concrete :
  droop_quota_eps (Fixed 4 4) (mkConfig "wigm-prf"%string MWigm 2 7 false false false false 0) = Ok 23334.
Proof. vm_compute. reflexivity. Qed.

(* ---- whole runs (meek and warren, every integer-carrier arithmetic, any guard) ----
   "Meek-family rules recompute it the same way from the votes still credited after each distribution": in every
   'iterate' snapshot of a count that ends without a crash, the reported quota is
   floor(votes / (seats + 1)) in the arithmetic's precision -- raw: votes * S / ((seats + 1) * S) -- plus one unit in the
   last place unless the arithmetic is exact, where votes is the snapshot's own votes total. *)
From Droop Require Import Model.Prelude Model.Election Proofs.CmdMeta Proofs.ConserveCount Proofs.MeekRun Proofs.MeekCount.
Theorem C04_meek_quota_recomputed_every_iteration_whole_run : forall A S (ZL : zlike A S) cfg, cf_method cfg = MMeek ->
  forall pr fuel s k, wf_profile_m pr ->
  exec (@crashed A) fuel (count_cmd A cfg RMeek) (init_state A cfg pr) = Some (s, k) -> k <> Abort ->
  forall a sn, In a (actions s) -> a_tag a = TIterate -> a_snap a = Some sn ->
  raw ZL (as_quota sn) = raw ZL (as_votes sn) * S / ((cf_nseats cfg + 1) * S) + (if exact A then 0 else raw ZL (epsilon A)).
Proof. exact count_meek_quota. Qed.
Print Assumptions C04_meek_quota_recomputed_every_iteration_whole_run.

(* WHOLE RUN, Gregory family (wigm, wigm-prf(-batch), scotland, mpls, cfer(-batch)), every arithmetic, profile and fuel:
   the quota is computed once, before the first snapshot is taken, and never changes -- in the record of a count that ends
   without a crash the final quota and the quota of EVERY snapshot are the value the rule's calcQuota() returned
   ([rule_quota]; [snaps l] lists the snapshots of an action list). *)
From Droop Require Import Proofs.ForwardCount Proofs.QuotaCount.
Theorem C04_gregory_quota_is_fixed_at_the_start_whole_run : forall A cfg r (q : T A) pr fuel s k,
  rule_quota A cfg r = Some (Ok q) ->
  exec (@crashed A) fuel (count_cmd A cfg r) (init_state A cfg pr) = Some (s, k) -> k <> Abort ->
  quota s = q /\ Forall (fun sn => as_quota sn = q) (snaps A (actions s)).
Proof. exact count_quota_fixed. Qed.
Print Assumptions C04_gregory_quota_is_fixed_at_the_start_whole_run.

(* ... and under the integer-carrier arithmetics (Fixed / integer / Guarded) that value is the prescribed one, in raw units
   (S = 10^precision): floor(ballots*S/(seats+1)) + 1 for wigm, wigm-prf and cfer -- the quotient truncated plus one unit
   in the last place; (floor(ballots/(seats+1)) + 1) whole votes for scotland, mpls and wigm with integer_quota. *)
Theorem C04_gregory_quota_is_the_prescribed_one_in_every_snapshot : forall A S (ZL : zlike A S) cfg,
  0 <= cf_nseats cfg -> raw ZL (epsilon A) = 1 -> exact A = false ->
  forall r pr fuel s k, seat_rule r ->
  exec (@crashed A) fuel (count_cmd A cfg r) (init_state A cfg pr) = Some (s, k) -> k <> Abort ->
  raw ZL (quota s) = prescribed S cfg r /\ Forall (fun sn => raw ZL (as_quota sn) = prescribed S cfg r) (snaps A (actions s)).
Proof. exact count_quota_prescribed. Qed.
Print Assumptions C04_gregory_quota_is_the_prescribed_one_in_every_snapshot.

Example C04_prescribed_values : forall cfg,
  prescribed 1000 cfg RCfer = cf_nballots cfg * 1000 / (cf_nseats cfg + 1) + 1 /\
  prescribed 1000 cfg RScotland = (cf_nballots cfg / (cf_nseats cfg + 1) + 1) * 1000 /\
  prescribed 1000 cfg RMpls = (cf_nballots cfg / (cf_nseats cfg + 1) + 1) * 1000.
Proof. intros cfg. repeat split. Qed.

(* ... for every ballot file the reader accepts, counted with the file's own ballot count as the driver does *)
From Droop Require Import Model.Profile Proofs.EndToEndLink Model.EndToEnd.
Theorem C04_gregory_quota_for_every_accepted_file : forall A S (ZL : zlike A S) cfg,
  0 <= cf_nseats cfg -> raw ZL (epsilon A) = 1 -> exact A = false ->
  forall r text p fuel s k, seat_rule r -> parse_file text = Ok p -> cf_nballots cfg = p_nBallots p ->
  exec (@crashed A) fuel (count_cmd A cfg r) (init_state A cfg (to_count_profile p)) = Some (s, k) -> k <> Abort ->
  let n := p_nBallots p in let st := cf_nseats cfg in
  let q := match r with
           | RWigm => if cf_integer_quota cfg then (1 + n / (st + 1)) * S else n * S / (st + 1) + 1
           | RWigmPrf | RCfer => n * S / (st + 1) + 1
           | _ => (n / (st + 1) + 1) * S
           end in
  raw ZL (quota s) = q /\ Forall (fun sn => raw ZL (as_quota sn) = q) (snaps A (actions s)).
Proof. exact accepted_gregory_quota. Qed.
Print Assumptions C04_gregory_quota_for_every_accepted_file.

(* ---- QPQ: "the quota is the prescribed one" after every tally.  QPQ recomputes its quota at every tally from the totals the tally has
   just recorded: active votes / (1 + seats - the share of the inactive ballots).  In every state, under every arithmetic: if the tally
   does not crash, the quota in force afterwards is that function of the recorded totals ([qpq_quota]); its value in raw units, for
   every arithmetic satisfying the laws, is floor(active * S / ((1 + seats) * S - inactive))  (Proofs/QpqQuota.v) ---- *)
From Droop Require Import Model.RulesMeek Proofs.QpqQuota.
Theorem C04_qpq_quota_after_every_tally : forall A cfg (s : est A), crashed (qpq_tally A cfg s) = false ->
  qpq_quota A cfg (qpq_tally A cfg s) = Ok (quota (qpq_tally A cfg s)).
Proof. exact qpq_tally_quota. Qed.
Print Assumptions C04_qpq_quota_after_every_tally.

Theorem C04_qpq_quota_value : forall A S (ZL : zlike A S) cfg (s : est A), crashed (qpq_tally A cfg s) = false ->
  raw ZL (quota (qpq_tally A cfg s)) =
  raw ZL (lv_va (qpq_tally A cfg s)) * S / ((1 + cf_nseats cfg) * S - raw ZL (lv_tx (qpq_tally A cfg s))).
Proof. exact qpq_tally_quota_value. Qed.
Print Assumptions C04_qpq_quota_value.
