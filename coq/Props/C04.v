(* C04 -- The quota is the prescribed one.  Proved for the integer-carrier arithmetics (raw units, S = 10^p):
   the quota each rule's calcQuota() computes.  "Whoever reaches it is elected / never excluded while holding
   it": quota-scope correspondence + oracle (_partial). *)
From Coq Require Import ZArith List Bool String.
From Droop Require Import Model.KernelBase Model.Arith Model.State Model.Prims Model.RulesGregory Model.RulesMeek
  Proofs.Zlike Proofs.Quota.
Open Scope Z_scope.

(* PRF WIGM A.1, CfER, and the parametric WIGM rule under fixed-point arithmetic:
   ballots/(seats+1) truncated at p places plus one unit in the last place *)
Theorem C04_droop_quota_fixed_point : forall A S (ZL : zlike A S) cfg, 0 <= cf_nseats cfg -> raw ZL (epsilon A) = 1 ->
  exists q, droop_quota_eps A cfg = Ok q /\ raw ZL q = cf_nballots cfg * S / (cf_nseats cfg + 1) + 1.
Proof. exact droop_quota_eps_value. Qed.
Print Assumptions C04_droop_quota_fixed_point.

(* Scottish 46, Minneapolis 167.20 Threshold: floor(ballots/(seats+1)) + 1 whole votes *)
Theorem C04_integer_quota : forall A S (ZL : zlike A S) cfg,
  raw ZL (integer_droop_quota A cfg) = (cf_nballots cfg / (cf_nseats cfg + 1) + 1) * S.
Proof. exact integer_quota_value. Qed.
Print Assumptions C04_integer_quota.

Theorem C04_wigm_quota : forall A S (ZL : zlike A S) cfg, 0 <= cf_nseats cfg -> raw ZL (epsilon A) = 1 -> exact A = false ->
  exists q, wigm_quota A cfg = Ok q /\
            raw ZL q = if cf_integer_quota cfg then (1 + cf_nballots cfg / (cf_nseats cfg + 1)) * S
                       else cf_nballots cfg * S / (cf_nseats cfg + 1) + 1.
Proof. exact wigm_quota_value. Qed.
Print Assumptions C04_wigm_quota.

(* Meek family: recomputed the same way from the votes still credited *)
Theorem C04_meek_quota : forall A S (ZL : zlike A S) cfg, 0 <= cf_nseats cfg -> raw ZL (epsilon A) = 1 ->
  forall st : est A, exact A = false ->
  exists q, meek_quota A cfg st = Ok q /\ raw ZL q = raw ZL (votes st) * S / ((cf_nseats cfg + 1) * S) + 1.
Proof. exact meek_quota_value. Qed.
Print Assumptions C04_meek_quota.

Example C04_concrete :
  droop_quota_eps (Fixed 4 4) (mkConfig "wigm-prf"%string MWigm 2 7 false false false false 0) = Ok 23334.
Proof. vm_compute. reflexivity. Qed.
