(* C09 -- Candidate status only moves forward; seats are never over- or under-committed.
   Proved so far for every rule, arithmetic, profile and fuel: round numbers in the record never
   decrease (whole-run theorem).  The status-transition and seat-bound clauses are decided by the
   transition oracle on implementation traces and by the states-scope correspondence (see evidence);
   their whole-run theorems are listed as open obligations in DESIGN.md. *)
From Coq Require Import ZArith List Bool PArith Sorted.
From Droop Require Import Model.Arith Model.Prelude Model.State Model.Prims Model.Election
  Proofs.CmdMeta Proofs.Hist Proofs.HistCount.
Open Scope Z_scope.

(* [actions s] is newest first; [newer a b] := a_round b <= a_round a *)
Theorem C09_rounds_never_decrease_partial : forall A cfg r pr fuel s k,
  exec (@crashed A) fuel (count_cmd A cfg r) (init_state A cfg pr) = Some (s, k) ->
  StronglySorted (newer A) (actions s) /\ Forall (fun a => 0 <= a_round a <= round s) (actions s).
Proof. exact rounds_monotone. Qed.
Print Assumptions C09_rounds_never_decrease_partial.
