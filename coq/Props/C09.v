(* C09 -- Candidate status only moves forward; seats are never over- or under-committed.
   Whole-run theorems, every arithmetic, profile and fuel:
   (1) every rule: round numbers in the record never decrease;
   (2) every rule except QPQ (whose restart un-elects, as the property allows): in the record of a count that
       ends normally, statuses only move forward -- hopeful -> elected (possibly transfer-pending, the pending
       flag never comes back) or hopeful -> defeated, nothing else; withdrawn stays withdrawn -- between ANY
       earlier and later snapshot, from the initial statuses to every snapshot, and from every snapshot to the
       final statuses.  (fwd / FwdL / ssn / snaps: Proofs/Forward.v, Proofs/ForwardCount.v.)
   (3) every Gregory rule -- wigm, wigm-prf, wigm-prf-batch, scotland, mpls, cfer, cfer-batch -- under Fixed / integer /
       Guarded(guard 0): a count that ends normally has elected at most [seats] candidates (every winner of the main loop
       holds the quota, the quota exceeds ballots/(seats+1), no votes are created -- so at most [seats] winners fit; the
       epilogues elect only while seats remain; cfer's "everybody fits" exits elect only candidates still in the running
       when hopeful + elected <= seats, and its round-1 exit fires before anybody else is elected).  Statuses only
       move forward (2), so no earlier snapshot shows more winners than the last.
   Seat bounds for the Meek family (FALSE under guarded guard>0, refuted below), QPQ transitions and crashed runs:
   states-scope correspondence + transition oracle (_partial). *)
From Coq Require Import ZArith List Bool PArith Sorted String.
Import ListNotations.
From Droop Require Import Model.Arith Model.Prelude Model.State Model.Prims Model.Election
  Proofs.CmdMeta Proofs.Hist Proofs.HistCount Proofs.Forward Proofs.ForwardCount Proofs.Zlike Proofs.Conserve Proofs.ConserveCount.
Open Scope string_scope.
Open Scope Z_scope.

(* [actions s] is newest first; [newer a b] := a_round b <= a_round a *)
Theorem C09_rounds_never_decrease_partial : forall A cfg r pr fuel s k,
  exec (@crashed A) fuel (count_cmd A cfg r) (init_state A cfg pr) = Some (s, k) ->
  StronglySorted (newer A) (actions s) /\ Forall (fun a => 0 <= a_round a <= round s) (actions s).
Proof. exact rounds_monotone. Qed.
Print Assumptions C09_rounds_never_decrease_partial.

Theorem C09_status_only_moves_forward_partial : forall A cfg r pr fuel s,
  not_qpq r -> NoDup (map pc_cid (pr_cands pr)) ->
  exec (@crashed A) fuel (count_cmd A cfg r) (init_state A cfg pr) = Some (s, Next) ->
  StronglySorted (fun newer older => FwdL (ssn A older) (ssn A newer)) (snaps A (actions s)) /\
  Forall (fun sn => FwdL (stl A (cands (init_state A cfg pr))) (ssn A sn) /\ FwdL (ssn A sn) (stl A (cands s)))
         (snaps A (actions s)) /\
  FwdL (stl A (cands (init_state A cfg pr))) (stl A (cands s)).
Proof. exact count_forward. Qed.
Print Assumptions C09_status_only_moves_forward_partial.

Theorem C09_seats_never_over_committed : forall A S (ZL : zlike A S) cfg,
  cf_method cfg = MWigm -> exact A = false -> 0 <= cf_nballots cfg -> 0 <= cf_nseats cfg ->
  forall r pr fuel s k, seat_rule r -> wf_profile pr -> cf_nballots cfg = ballot_total pr ->
  exec (@crashed A) fuel (count_cmd A cfg r) (init_state A cfg pr) = Some (s, k) -> k <> Abort ->
  nlen (electeds A s) <= cf_nseats cfg.
Proof. exact count_seats. Qed.
Print Assumptions C09_seats_never_over_committed.

(* ... and no recorded snapshot shows more than [seats] winners either ([ssn sn] = (id, status, pending) of every candidate in
   snapshot sn; nel_sts counts the elected ones) *)
Theorem C09_seats_never_over_committed_in_any_snapshot : forall A S (ZL : zlike A S) cfg,
  cf_method cfg = MWigm -> exact A = false -> 0 <= cf_nballots cfg -> 0 <= cf_nseats cfg ->
  forall r pr fuel s, seat_rule r -> wf_profile pr -> cf_nballots cfg = ballot_total pr ->
  exec (@crashed A) fuel (count_cmd A cfg r) (init_state A cfg pr) = Some (s, Next) ->
  Forall (fun sn => nel_sts (ssn A sn) <= cf_nseats cfg) (snaps A (actions s)).
Proof. exact count_seats_every_snapshot. Qed.
Print Assumptions C09_seats_never_over_committed_in_any_snapshot.

(* QPQ, under EVERY arithmetic (no hypothesis on the value class at all): a count that does not crash ends with at most [seats]
   winners.  QPQ un-elects everybody when it restarts after an exclusion -- which is why the status theorem above leaves it out --
   but the loop runs only while a seat is free, a step elects at most one candidate, a restart elects nobody and the closing
   "elect remaining" step runs only when the hopefuls fit (Proofs/QpqSeats.v).  With the Gregory family above, the seat bound is
   proved for every rule but the Meek family, where it is false (refutations below). *)
From Droop Require Import Proofs.QpqSeats.
Theorem C09_seats_never_over_committed_qpq : forall A cfg pr fuel s k,
  0 <= cf_nseats cfg -> NoDup (map pc_cid (pr_cands pr)) ->
  exec (@crashed A) fuel (count_cmd A cfg RQpq) (init_state A cfg pr) = Some (s, k) -> k <> Abort ->
  nlen (electeds A s) <= cf_nseats cfg.
Proof. exact count_seats_qpq. Qed.
Print Assumptions C09_seats_never_over_committed_qpq.

(* ... and no recorded snapshot of a QPQ count shows more than [seats] winners either: every action is logged in a state with at most
   [seats] elected candidates (an election is logged after its status change and happens only while a seat is free; a restart logs
   nothing) -- Proofs/QpqSnaps.v, every arithmetic *)
From Droop Require Import Proofs.QpqSnaps.
Theorem C09_seats_never_over_committed_in_any_snapshot_qpq : forall A cfg pr fuel s k,
  0 <= cf_nseats cfg -> NoDup (map pc_cid (pr_cands pr)) ->
  exec (@crashed A) fuel (count_cmd A cfg RQpq) (init_state A cfg pr) = Some (s, k) -> k <> Abort ->
  Forall (fun sn => nel_sts (ssn A sn) <= cf_nseats cfg) (snaps A (actions s)).
Proof. exact count_seats_qpq_every_snapshot. Qed.
Print Assumptions C09_seats_never_over_committed_in_any_snapshot_qpq.

(* the QPQ theorems have inhabitants: QPQ's own arithmetic (guarded, 9 + 9 places), 4 candidates, 2 seats; A is elected, then nobody
   exceeds the quota, D is excluded and the count restarts (A is un-elected and elected again before anything is logged); the count
   ends normally with two winners and no snapshot shows more than two *)
Definition qpq_profile : profile :=
  mkProfile 2 14
    [mkPcand 1 1 1 "A" "1" false false; mkPcand 2 2 2 "B" "2" false false; mkPcand 3 3 3 "C" "3" false false; mkPcand 4 4 4 "D" "4" false false]
    [(6, [1]); (3, [2]); (3, [3; 2]); (2, [4; 3])] [].
Example C09_qpq_concrete :
  match run_count (Guarded 9 9 9 0) (mkConfig "qpq" MQpq 2 14 false false false false 0) (2 ^ 12)%positive RQpq qpq_profile with
  | Done s true => map (@cid _) (electeds _ s) = [1; 3] /\ map (@cid _) (defeateds _ s) = [2; 4] /\
                   map (fun sn => nel_sts (ssn _ sn)) (snaps _ (actions s)) = [2; 2; 2; 2; 1; 1; 1; 1; 1; 1; 1; 1; 1; 0; 0]
  | _ => False
  end.
Proof. vm_compute. repeat split; reflexivity. Qed.

(* what "forward" allows, spelled out *)
Example C09_forward_relation :
  fwd (Hopeful, None) (Elected, Some true) /\ fwd (Elected, Some true) (Elected, Some false) /\
  fwd (Hopeful, None) (Defeated, None) /\ ~ fwd (Defeated, None) (Hopeful, None) /\
  ~ fwd (Elected, Some false) (Elected, Some true) /\ ~ fwd (Elected, Some false) (Hopeful, Some false) /\
  ~ fwd (Withdrawn, None) (Elected, Some false) /\ ~ fwd (Elected, None) (Defeated, None).
Proof. cbn. repeat split; auto; try (intros H; exact H); intros H; discriminate (H eq_refl). Qed.

(* "seats are never over-committed" is FALSE for meek under guarded arithmetic with guard > 0 (open findings K13/K14):
   the keep-factor update rounds down, a ballot multiplier of 787305 multiplies the truncation, the first winner ends
   up holding less than the quota and two more hopefuls reach the collapsed quota in one iteration: four candidates are
   elected for three seats and only postCheck notices.  The model agrees with the code on this input (corpus K13). *)
Definition k13_profile : profile :=
  mkProfile 3 788313
    [mkPcand 1 1 4 "c1" "1" false false; mkPcand 2 2 1 "c2" "2" false false; mkPcand 3 3 2 "c3" "3" false false;
     mkPcand 4 4 5 "c4" "4" false false; mkPcand 5 5 3 "c5" "5" false false]
    [(7, [2; 1]); (1, [1; 2; 5; 3]); (787305, [2]); (999, [1]); (1, [4; 5; 1])] [].
Example C09_meek_guarded_overelects_refuted :
  match run_count (Guarded 4 2 4 0) (mkConfig "meek" MMeek 3 788313 false false false false 2) (2 ^ 20)%positive RMeek k13_profile with
  | Done s false => nlen (electeds _ s) = 4
  | _ => False
  end.
Proof. vm_compute. reflexivity. Qed.

(* ... and FALSE for meek-prf too (open findings K20/K21): fixed point, nine places, ballot lines with multiplier 950.  A line's
   share of an elected candidate is truncated and then multiplied, so after the keep-factor update W1 and W2 hold slightly LESS
   than the quota; C is excluded, its 358 ballots exhaust, the quota falls to 492.652882110, A and B are exactly tied at
   492.652882200 and step B.2.c elects both with one seat left.  The model agrees with the code on this input (corpus K20). *)
Definition k20_profile : profile :=
  mkProfile 3 2330
    [mkPcand 1 1 1 "W1" "1" false false; mkPcand 2 2 2 "W2" "2" false false; mkPcand 3 3 3 "A" "3" false false;
     mkPcand 4 4 4 "B" "4" false false; mkPcand 5 5 5 "C" "5" false false]
    [(950, [1; 2; 3]); (950, [2; 1; 4]); (2, [1]); (35, [3]); (35, [4]); (358, [5])] [].
Example C09_meek_prf_overelects_refuted :
  match run_count (Fixed 9 9) (mkConfig "meek-prf" MMeek 3 2330 false false false false 6) (2 ^ 20)%positive RMeekPrf k20_profile with
  | Done s false => nlen (electeds _ s) = 4 /\ map (@cid _) (defeateds _ s) = [5]
  | _ => False
  end.
Proof. vm_compute. split; reflexivity. Qed.

(* ... and FALSE for the generic meek rule under fixed-point arithmetic as well (open findings K22/K23; guarded with guard 0 is the
   same count by C13): the symmetric profile with multiplier 1795 -- found by a directed search once K20 was understood. *)
Definition k22_profile : profile :=
  mkProfile 3 3703
    [mkPcand 1 1 1 "W1" "1" false false; mkPcand 2 2 2 "W2" "2" false false; mkPcand 3 3 3 "A" "3" false false;
     mkPcand 4 4 4 "B" "4" false false; mkPcand 5 5 5 "C" "5" false false]
    [(1795, [1; 2; 3]); (1795, [2; 1; 4]); (20, [3]); (20, [4]); (73, [5])] [].
Example C09_meek_fixed_overelects_refuted :
  match run_count (Fixed 9 9) (mkConfig "meek" MMeek 3 3703 false false true false 6) (2 ^ 20)%positive RMeek k22_profile with
  | Done s false => nlen (electeds _ s) = 4 /\ map (@cid _) (defeateds _ s) = [5]
  | _ => False
  end.
Proof. vm_compute. split; reflexivity. Qed.

(* ---- ... for every ballot file the reader accepts (see Props/C02.v for the reading of parse_file / to_count_profile) ---- *)
From Droop Require Import Model.KernelBase Model.Profile Model.EndToEnd Proofs.EndToEndLink.

Theorem C09_seats_never_over_committed_for_every_accepted_file : forall A S (ZL : zlike A S) cfg,
  cf_method cfg = MWigm -> exact A = false -> 0 <= cf_nseats cfg ->
  forall r text p fuel s k, seat_rule r -> parse_file text = Ok p -> p_linesEq p = [] -> cf_nballots cfg = p_nBallots p ->
  exec (@crashed A) fuel (count_cmd A cfg r) (init_state A cfg (to_count_profile p)) = Some (s, k) -> k <> Abort ->
  nlen (electeds A s) <= cf_nseats cfg.
Proof. exact accepted_seats. Qed.
Print Assumptions C09_seats_never_over_committed_for_every_accepted_file.

(* QPQ for every accepted file, every arithmetic, files with equal-rank lines included: the seat bound and the exact number of winners
   with no hypothesis left but the fuel bound hidden in "the count ended" *)
Theorem C09_qpq_for_every_accepted_file : forall A cfg, 0 <= cf_nseats cfg ->
  forall text p fuel s k, parse_file text = Ok p ->
  exec (@crashed A) fuel (count_cmd A cfg RQpq) (init_state A cfg (to_count_profile p)) = Some (s, k) -> k <> Abort ->
  nlen (electeds A s) <= cf_nseats cfg /\ nlen (electeds A s) = Z.min (cf_nseats cfg) (nlen (eligibles A s)).
Proof. exact accepted_qpq. Qed.
Print Assumptions C09_qpq_for_every_accepted_file.
