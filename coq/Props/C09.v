(* C09 -- Candidate status only moves forward; seats are never over- or under-committed.
   Whole-run theorems, every arithmetic, profile and fuel:
   (1) every rule: round numbers in the record never decrease;
   (2) every rule except QPQ (whose restart un-elects, as the property allows): in the record of a count that
       ends normally, statuses only move forward -- hopeful -> elected (possibly transfer-pending, the pending
       flag never comes back) or hopeful -> defeated, nothing else; withdrawn stays withdrawn -- between ANY
       earlier and later snapshot, from the initial statuses to every snapshot, and from every snapshot to the
       final statuses.  (fwd / FwdL / ssn / snaps: Proofs/Forward.v, Proofs/ForwardCount.v.)
   Seat bounds, QPQ transitions and crashed runs: states-scope correspondence + transition oracle (_partial). *)
From Coq Require Import ZArith List Bool PArith Sorted.
From Droop Require Import Model.Arith Model.Prelude Model.State Model.Prims Model.Election
  Proofs.CmdMeta Proofs.Hist Proofs.HistCount Proofs.Forward Proofs.ForwardCount.
Open Scope Z_scope.

(* [actions s] is newest first; [newer a b] := a_round b <= a_round a *)
Theorem C09_rounds_never_decrease_partial : forall A cfg r pr fuel s k,
  exec (@crashed A) fuel (count_cmd A cfg r) (init_state A cfg pr) = Some (s, k) ->
  StronglySorted (newer A) (actions s) /\ Forall (fun a => 0 <= a_round a <= round s) (actions s).
Proof. exact rounds_monotone. Qed.
Print Assumptions C09_rounds_never_decrease_partial.

Theorem C09_status_only_moves_forward_partial : forall A cfg r pr fuel s,
  not_qpq r -> NoDup (map pc_cid (pr_cands pr)) ->
  exec (@crashed A) fuel (count_cmd A cfg r) (init_state A cfg pr) = Some (s, Next) ->
  StronglySorted (fun newer older => FwdL (ssn A older) (ssn A newer)) (snaps A (actions s)) /\
  Forall (fun sn => FwdL (stl A (cands (init_state A cfg pr))) (ssn A sn) /\ FwdL (ssn A sn) (stl A (cands s)))
         (snaps A (actions s)) /\
  FwdL (stl A (cands (init_state A cfg pr))) (stl A (cands s)).
Proof. exact count_forward. Qed.
Print Assumptions C09_status_only_moves_forward_partial.

(* what "forward" allows, spelled out *)
Example C09_forward_relation :
  fwd (Hopeful, None) (Elected, Some true) /\ fwd (Elected, Some true) (Elected, Some false) /\
  fwd (Hopeful, None) (Defeated, None) /\ ~ fwd (Defeated, None) (Hopeful, None) /\
  ~ fwd (Elected, Some false) (Elected, Some true) /\ ~ fwd (Elected, Some false) (Hopeful, Some false) /\
  ~ fwd (Withdrawn, None) (Elected, Some false) /\ ~ fwd (Elected, None) (Defeated, None).
Proof. cbn. repeat split; auto; try (intros H; exact H); intros H; discriminate (H eq_refl). Qed.
