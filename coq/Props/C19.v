(* C19 -- An interrupted count can always be reported, as a prefix of the full count.
   Model: a count is a command tree of micro-operations; an interrupt after k micro-operations is the
   same tree run over (budget, state), each Do consuming one unit, aborting when the budget is spent
   (Proofs/Interrupt.v).  Rendering functions of the model are total Coq functions, so "can still be
   produced" holds by construction for every state; the theorem is the prefix property.  Python-level
   interrupt delivery (between bytecodes, inside C calls) is what the model cannot exhibit: the
   interrupt driver (sys.settrace at every line event) ties that part (DESIGN C19, partial). *)
From Coq Require Import ZArith List Bool PArith.
From Droop Require Import Model.Arith Model.Prelude Model.State Model.Prims Model.Election
  Proofs.CmdMeta Proofs.Hist Proofs.Interrupt Proofs.HistCount.
Import ListNotations.

(* every micro-operation of every rule (and of Election.count()) only appends to the action list *)
Theorem C19_history_only_grows : forall A cfg r, steps (est A) (Ext A) (count_cmd A cfg r).
Proof. exact count_steps. Qed.
Print Assumptions C19_history_only_grows.

(* for every arithmetic, configuration, rule, profile, fuel and interruption point k: if the uninterrupted
   count yields a state sF, the count interrupted after k micro-operations yields a state sI whose action
   list is a prefix in time of sF's (lists are newest first); if the budget was not exhausted, sI = sF *)
Theorem C19_interrupted_prefix : forall A cfg r pr fuel k sF kF,
  exec (@crashed A) fuel (count_cmd A cfg r) (init_state A cfg pr) = Some (sF, kF) ->
  exists n sI kI,
    exec (crashedI (est A) (@crashed A)) fuel (lift (est A) (count_cmd A cfg r)) (S k, init_state A cfg pr)
      = Some ((n, sI), kI) /\
    (exists l, actions sF = (l ++ actions sI)%list) /\
    (n <> O -> sI = sF).
Proof. exact interrupted_prefix. Qed.
Print Assumptions C19_interrupted_prefix.

(* the generic statement: any tree whose micro-operations extend the state in a preorder R *)
Theorem C19_interrupted_below_generic : forall St crashed (R : St -> St -> Prop),
  (forall s, R s s) -> (forall a b c, R a b -> R b c -> R a c) ->
  forall c, steps St R c -> forall fuel n s, n <> O ->
  Rel St R (exec crashed fuel c s) (exec (crashedI St crashed) fuel (lift St c) (n, s)).
Proof. exact interrupted_below. Qed.
Print Assumptions C19_interrupted_below_generic.
