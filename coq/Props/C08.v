(* C08 -- Meek/Warren iterations keep their invariants.  Proved per micro-operation (integer-carrier
   arithmetics): a distribution over strict-ranking ballots credits candidates and the residual with exactly the
   ballots' multipliers -- for meek/warren (kw_meek / kw_warren) and for meek-prf.  kf ranges are refuted for the
   current code (open findings K1, K5; Examples by evaluation of the model); exits and equal-rank ballots:
   values-scope correspondence + oracle (_partial). *)
From Coq Require Import ZArith List Bool String PArith.
From Droop Require Import Model.KernelBase Model.Arith Model.Prelude Model.State Model.Prims Model.RulesMeek Model.Election
  Proofs.Zlike Proofs.MeekDist.
Import ListNotations.
Open Scope Z_scope.

Theorem C08_one_ballot_conserved : forall A S (ZL : zlike A S) cfg r cs mult w br,
  NoDup (map (@cid A) cs) ->
  let res := dist_ballot A cfg cs mult r w br in
  tot A S ZL (fst (fst res)) + raw ZL (snd res) = tot A S ZL cs + raw ZL br /\
  map (@cid A) (fst (fst res)) = map (@cid A) cs.
Proof. exact dist_ballot_conserves. Qed.
Print Assumptions C08_one_ballot_conserved.

Theorem C08_one_ballot_conserved_meek_prf : forall A S (ZL : zlike A S) r cs mult w br,
  NoDup (map (@cid A) cs) ->
  let res := dist_ballot_prf A cs mult r w br in
  tot A S ZL (fst (fst res)) + raw ZL (snd res) = tot A S ZL cs + raw ZL br /\
  map (@cid A) (fst (fst res)) = map (@cid A) cs.
Proof. exact dist_ballot_prf_conserves. Qed.
Print Assumptions C08_one_ballot_conserved_meek_prf.

Theorem C08_distribution_conserved_partial : forall A S (ZL : zlike A S) cfg (bs : list (ballot A)) cs res acc,
  NoDup (map (@cid A) cs) ->
  let r := fold_left (fun '(cs, res_, acc) b =>
      let '(cs', w', br') := dist_ballot A cfg cs (bmult b) (brank b) (V1 A) (bmult b) in
      (cs', add A res_ br', with_bres (with_bweight b w') br' :: acc)) bs (cs, res, acc) in
  tot A S ZL (fst (fst r)) + raw ZL (snd (fst r)) = tot A S ZL cs + raw ZL res + sum_mult A S ZL bs /\
  map (@cid A) (fst (fst r)) = map (@cid A) cs.
Proof. exact strict_fold_conserves. Qed.
Print Assumptions C08_distribution_conserved_partial.

(* the kf-range clause is false for the current code: precision 1, kf = 1.2 (open finding K5) *)
Definition k5_profile : profile :=
  mkProfile 4 11
    [mkPcand 1 1 1 "A" "1" false false; mkPcand 2 2 3 "B" "2" false false; mkPcand 3 3 5 "C" "3" false false;
     mkPcand 4 4 2 "D" "4" false false; mkPcand 5 5 4 "E" "5" false false]
    [(2, [1]); (2, [2]); (2, [1]); (2, [1; 2]); (2, [1; 2; 3; 4]); (1, [1])] [].
Definition above_one (A : arith) (c : cand A) : bool :=
  match ckf c with Some k => ltv A (of_int A 1) k | None => false end.
Example C08_kf_above_one_refuted :
  match run_count (Fixed 1 1) (mkConfig "meek" MMeek 4 11 false false true false 0) (2 ^ 20)%positive RMeek k5_profile with
  | Done s _ => existsb (fun c => in_state _ Elected c && above_one _ c) (cands s) = true
  | _ => False
  end.
Proof. vm_compute. reflexivity. Qed.
