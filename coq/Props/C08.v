(* C08 -- Meek/Warren iterations keep their invariants.  Proved per micro-operation (integer-carrier
   arithmetics): a distribution over strict-ranking ballots credits candidates and the residual with exactly the
   ballots' multipliers -- for meek/warren (kw_meek / kw_warren) and for meek-prf.  the keep-factor update of meek/warren
   never leaves an elected candidate above 1 (fix F12; the lower bound fails under guarded guard>0, open finding K1); exits and equal-rank ballots:
   values-scope correspondence + oracle (_partial).
   WHOLE RUNS (meek and warren, strict and equal-rank ballots, Fixed / integer / Guarded with any guard): every 'iterate'
   snapshot a count records has tallies + residual = ballot papers cast (C08_every_iteration_conserves_votes_whole_run;
   invariant MI and Hoare proof in Proofs/MeekRun.v, MeekCount.v). *)
From Coq Require Import ZArith List Bool String PArith Lia.
From Droop Require Import Model.KernelBase Model.Arith Model.Prelude Model.State Model.Prims Model.RulesMeek Model.Election
  Proofs.Zlike Proofs.MeekDist Proofs.MeekKf Proofs.ConserveCount Proofs.MeekRun Proofs.MeekKfRun Proofs.MeekPrfRun Proofs.MeekCount.
Import ListNotations.
Open Scope Z_scope.

Theorem C08_one_ballot_conserved : forall A S (ZL : zlike A S) cfg r cs mult w br,
  NoDup (map (@cid A) cs) ->
  let res := dist_ballot A cfg cs mult r w br in
  tot A S ZL (fst (fst res)) + raw ZL (snd res) = tot A S ZL cs + raw ZL br /\
  map (@cid A) (fst (fst res)) = map (@cid A) cs.
Proof. exact dist_ballot_conserves. Qed.
Print Assumptions C08_one_ballot_conserved.

Theorem C08_one_ballot_conserved_meek_prf : forall A S (ZL : zlike A S) r cs mult w br,
  NoDup (map (@cid A) cs) ->
  let res := dist_ballot_prf A cs mult r w br in
  tot A S ZL (fst (fst res)) + raw ZL (snd res) = tot A S ZL cs + raw ZL br /\
  map (@cid A) (fst (fst res)) = map (@cid A) cs.
Proof. exact dist_ballot_prf_conserves. Qed.
Print Assumptions C08_one_ballot_conserved_meek_prf.

Theorem C08_distribution_conserved_partial : forall A S (ZL : zlike A S) cfg (bs : list (ballot A)) cs res acc,
  NoDup (map (@cid A) cs) ->
  let r := fold_left (fun '(cs, res_, acc) b =>
      let '(cs', w', br') := dist_ballot A cfg cs (bmult b) (brank b) (V1 A) (bmult b) in
      (cs', add A res_ br', with_bres (with_bweight b w') br' :: acc)) bs (cs, res, acc) in
  tot A S ZL (fst (fst r)) + raw ZL (snd (fst r)) = tot A S ZL cs + raw ZL res + sum_mult A S ZL bs /\
  map (@cid A) (fst (fst r)) = map (@cid A) cs.
Proof. exact strict_fold_conserves. Qed.
Print Assumptions C08_distribution_conserved_partial.

(* keep factors of elected candidates never exceed 1 under meek/warren after fix F12 (the update caps them); for
   meek-prf the reference rule prescribes the bare update and the clause stays with the oracle.  The lower bound
   (kf > 0) is false under guarded arithmetic with guard > 0 (open finding K1). *)
Theorem C08_keep_factor_at_most_one : forall A S (ZL : zlike A S), exact A = false -> forall (s : est A),
  crashed (update_kfs A true s) = false ->
  forall c, In c (cands (update_kfs A true s)) -> cst c = Elected -> exists k, ckf c = Some k /\ raw ZL k <= S.
Proof. exact update_kfs_le_one. Qed.
Print Assumptions C08_keep_factor_at_most_one.

(* the former witness of finding K5 (precision 1, a keep factor of 1.2 before the fix) now stays within range *)
Definition k5_profile : profile :=
  mkProfile 4 11
    [mkPcand 1 1 1 "A" "1" false false; mkPcand 2 2 3 "B" "2" false false; mkPcand 3 3 5 "C" "3" false false;
     mkPcand 4 4 2 "D" "4" false false; mkPcand 5 5 4 "E" "5" false false]
    [(2, [1]); (2, [2]); (2, [1]); (2, [1; 2]); (2, [1; 2; 3; 4]); (1, [1])] [].
Definition above_one (A : arith) (c : cand A) : bool :=
  match ckf c with Some k => ltv A (of_int A 1) k | None => false end.
Example C08_former_k5_witness_within_range :
  match run_count (Fixed 1 1) (mkConfig "meek" MMeek 4 11 false false true false 0) (2 ^ 20)%positive RMeek k5_profile with
  | Done s _ => existsb (fun c => in_state _ Elected c && above_one _ c) (cands s) = false
  | _ => False
  end.
Proof. vm_compute. reflexivity. Qed.

(* ---- whole runs (meek and warren: cfg is arbitrary but for the method) ----
   In the history of a count that ends without a crash, every action tagged 'iterate' carries a snapshot whose votes total
   (sum of the tallies of all non-withdrawn candidates) plus residual equals the number of ballot papers of the profile,
   S = 10^p raw units per paper; strict and equal-rank ballots, any keep factors, any number of iterations and rounds. *)
Theorem C08_every_iteration_conserves_votes_whole_run : forall A S (ZL : zlike A S) cfg, cf_method cfg = MMeek ->
  forall pr fuel s k, wf_profile_m pr ->
  exec (@crashed A) fuel (count_cmd A cfg RMeek) (init_state A cfg pr) = Some (s, k) -> k <> Abort ->
  forall a sn, In a (actions s) -> a_tag a = TIterate -> a_snap a = Some sn ->
  raw ZL (as_votes sn) + match as_nt sn with Some x => raw ZL x | None => 0 end = S * (ballot_total pr + eballot_total pr).
Proof. exact count_meek_iterations. Qed.
Print Assumptions C08_every_iteration_conserves_votes_whole_run.

(* the final 'end' action of such a count (its snapshot is the head of the history): tallies + residual = the number of
   ballots the count was given (cf_nballots, which the driver sets to the profile's ballot count) *)
Theorem C08_end_snapshot_conserves_votes_whole_run : forall A S (ZL : zlike A S) cfg, cf_method cfg = MMeek ->
  forall pr fuel s k, wf_profile_m pr ->
  exec (@crashed A) fuel (count_cmd A cfg RMeek) (init_state A cfg pr) = Some (s, k) -> k <> Abort ->
  exists a rest sn, actions s = a :: rest /\ a_tag a = TEnd /\ a_snap a = Some sn /\
    raw ZL (as_votes sn) + match as_nt sn with Some x => raw ZL x | None => 0 end = cf_nballots cfg * S.
Proof. exact count_meek_end. Qed.
Print Assumptions C08_end_snapshot_conserves_votes_whole_run.

(* ---- meek-prf, whole runs (any integer-carrier arithmetic, any guard) ----
   [claimed t m]: the action is a 'begin', 'elect', 'tie' or 'defeat' action whose message is not an "Elect remaining" /
   "Defeat remaining" one -- the snapshots the property names for meek-prf (its 'round' and '... remaining' snapshots
   are taken between the zeroing of an excluded tally and the next distribution).  Every such snapshot of a count that
   ends without a crash shows tallies + residual = the strictly ranked ballots cast (meek-prf does not read ballots
   with equal rankings), and the final 'end' action shows tallies + residual = the ballot count given to the count. *)
Theorem C08_meek_prf_snapshots_conserve_votes_whole_run : forall A S (ZL : zlike A S) cfg, cf_method cfg = MMeek ->
  forall pr fuel s k, wf_profile pr ->
  exec (@crashed A) fuel (count_cmd A cfg RMeekPrf) (init_state A cfg pr) = Some (s, k) -> k <> Abort ->
  (forall a sn, In a (actions s) -> claimed (a_tag a) (a_msg a) = true -> a_snap a = Some sn ->
     raw ZL (as_votes sn) + match as_nt sn with Some x => raw ZL x | None => 0 end = S * ballot_total pr) /\
  (exists a rest sn, actions s = a :: rest /\ a_tag a = TEnd /\ a_snap a = Some sn /\
     raw ZL (as_votes sn) + match as_nt sn with Some x => raw ZL x | None => 0 end = cf_nballots cfg * S).
Proof. exact count_meek_prf. Qed.
Print Assumptions C08_meek_prf_snapshots_conserve_votes_whole_run.

(* ... and under the arithmetics whose comparisons and explicit roundings are exact (Fixed, integer, Guarded with guard 0),
   in every 'iterate' snapshot of such a count: no tally is negative, a hopeful candidate's keep factor is 1, an elected
   one's lies in (0, 1], a defeated or withdrawn one's is 0 (kfs reads an unset factor as 0), and the residual is not
   negative.  Under Guarded arithmetic with guard > 0 this is false (open findings K1, K9-K12). *)
Theorem C08_keep_factors_in_range_nothing_negative_whole_run : forall A S (ZL : zlike A S) cfg, cf_method cfg = MMeek ->
  exact A = false -> 0 <= cf_nseats cfg -> 0 <= cf_nballots cfg ->
  forall pr fuel s k, wf_profile_m pr ->
  exec (@crashed A) fuel (count_cmd A cfg RMeek) (init_state A cfg pr) = Some (s, k) -> k <> Abort ->
  forall a sn, In a (actions s) -> a_tag a = TIterate -> a_snap a = Some sn ->
  (forall x, In x (as_c sn) -> 0 <= raw ZL (sn_vote x) /\
     match sn_st x with
     | Hopeful => kfs A S ZL (sn_kf x) = S
     | Elected => 0 < kfs A S ZL (sn_kf x) <= S
     | Defeated | Withdrawn => kfs A S ZL (sn_kf x) = 0
     end) /\
  match as_nt sn with Some r => 0 <= raw ZL r | None => True end.
Proof. exact count_meek_kf_ranges. Qed.
Print Assumptions C08_keep_factors_in_range_nothing_negative_whole_run.

(* the hypotheses are satisfiable and the conclusion is not empty: a meek count of a well-formed profile with an
   equal-rank ballot under Fixed(4) ends normally and records iterate actions with snapshots *)
Definition c08_profile : profile :=
  mkProfile 2 7 [mkPcand 1 1 1 "A" "1" false false; mkPcand 2 2 2 "B" "2" false false; mkPcand 3 3 3 "C" "3" false false;
                 mkPcand 4 4 4 "D" "4" false true]
            [(3, [1; 2]); (2, [2]); (1, [3; 2])] [(1, [[1; 3]; [2]])].
Definition iterate_snaps (A : arith) (s : est A) : nat :=
  List.length (filter (fun a => match a_tag a, a_snap a with TIterate, Some _ => true | _, _ => false end) (actions s)).
Example C08_whole_run_nonvacuous :
  wf_profile_m c08_profile /\ ballot_total c08_profile + eballot_total c08_profile = 7 /\
  match exec (@crashed _) (2 ^ 12)%positive (count_cmd (Fixed 4 4) (mkConfig "meek" MMeek 2 7 false false true false 6) RMeek)
             (init_state (Fixed 4 4) (mkConfig "meek" MMeek 2 7 false false true false 6) c08_profile) with
  | Some (s, Next) => (2 <= iterate_snaps _ s)%nat
  | _ => False end.
Proof.
  split; [|split; [reflexivity|vm_compute; repeat constructor]].
  assert (Hc: forall c, In c [1; 2; 3] -> exists pc, In pc (pr_cands c08_profile) /\ pc_cid pc = c /\ pc_withdrawn pc = false).
  { intros c Hc. cbn in Hc.
    repeat (destruct Hc as [<-|Hc];
            [first [exists (mkPcand 1 1 1 "A" "1" false false); split; [cbn; tauto|split; reflexivity]
                   |exists (mkPcand 2 2 2 "B" "2" false false); split; [cbn; tauto|split; reflexivity]
                   |exists (mkPcand 3 3 3 "C" "3" false false); split; [cbn; tauto|split; reflexivity]]|]); contradiction. }
  split; [split; [repeat constructor; cbn; intuition (try discriminate; try lia)|]|].
  - intros m r H. cbn in H. destruct H as [H|[H|[H|[]]]]; inversion H; subst; (split; [lia|]); intros c Hin; apply Hc; cbn in *; tauto.
  - intros m r H. cbn in H. destruct H as [H|[]]. inversion H; subst. split; [lia|]. intros g c Hg Hin. apply Hc. cbn in Hg. destruct Hg as [<-|[<-|[]]]; cbn in *; tauto.
Qed.

(* the meek-prf theorem is not vacuous: a count records claimed snapshots *)
Definition claimed_snaps (A : arith) (s : est A) : nat :=
  List.length (filter (fun a => claimed (a_tag a) (a_msg a) && match a_snap a with Some _ => true | None => false end) (actions s)).
Example C08_meek_prf_nonvacuous :
  match exec (@crashed _) (2 ^ 12)%positive (count_cmd (Fixed 9 9) (mkConfig "meek-prf" MMeek 2 7 false false false false 6) RMeekPrf)
             (init_state (Fixed 9 9) (mkConfig "meek-prf" MMeek 2 7 false false false false 6) c08_profile) with
  | Some (s, Next) => (3 <= claimed_snaps _ s)%nat
  | _ => False end.
Proof. vm_compute. repeat constructor. Qed.

(* ---- ... for every ballot file the reader accepts ----
   [parse_file] is the reader model (C15/C16), [to_count_profile] what Election.__init__ reads off the parsed profile
   (Model/EndToEnd.v); the hypothesis "well-formed profile" of the whole-run theorems is discharged by the reader's
   theorem (Proofs/EndToEndLink.v).  ./check runs the composed pipeline (text -> reader model -> count model) against
   the implementation on the same files (correspondence group e2e). *)
From Droop Require Import Model.Profile Model.EndToEnd Proofs.EndToEndLink.

Theorem C08_every_iteration_conserves_votes_for_every_accepted_file : forall A S (ZL : zlike A S) cfg, cf_method cfg = MMeek ->
  forall text p fuel s k, parse_file text = Ok p ->
  exec (@crashed A) fuel (count_cmd A cfg RMeek) (init_state A cfg (to_count_profile p)) = Some (s, k) -> k <> Abort ->
  forall a sn, In a (actions s) -> a_tag a = TIterate -> a_snap a = Some sn ->
  raw ZL (as_votes sn) + match as_nt sn with Some x => raw ZL x | None => 0 end = S * p_nBallots p.
Proof. exact accepted_meek_iterations. Qed.
Print Assumptions C08_every_iteration_conserves_votes_for_every_accepted_file.

Theorem C08_keep_factors_in_range_for_every_accepted_file : forall A S (ZL : zlike A S) cfg, cf_method cfg = MMeek ->
  exact A = false -> 0 <= cf_nseats cfg -> 0 <= cf_nballots cfg ->
  forall text p fuel s k, parse_file text = Ok p ->
  exec (@crashed A) fuel (count_cmd A cfg RMeek) (init_state A cfg (to_count_profile p)) = Some (s, k) -> k <> Abort ->
  forall a sn, In a (actions s) -> a_tag a = TIterate -> a_snap a = Some sn ->
  (forall x, In x (as_c sn) -> 0 <= raw ZL (sn_vote x) /\ kf_range S (sn_st x) (kfs A S ZL (sn_kf x))) /\
  match as_nt sn with Some r => 0 <= raw ZL r | None => True end.
Proof. exact accepted_meek_kf_ranges. Qed.
Print Assumptions C08_keep_factors_in_range_for_every_accepted_file.

Theorem C08_meek_prf_snapshots_for_every_accepted_file : forall A S (ZL : zlike A S) cfg, cf_method cfg = MMeek ->
  forall text p fuel s k, parse_file text = Ok p ->
  exec (@crashed A) fuel (count_cmd A cfg RMeekPrf) (init_state A cfg (to_count_profile p)) = Some (s, k) -> k <> Abort ->
  (forall a sn, In a (actions s) -> claimed (a_tag a) (a_msg a) = true -> a_snap a = Some sn ->
     raw ZL (as_votes sn) + match as_nt sn with Some x => raw ZL x | None => 0 end = S * ballot_total (to_count_profile p)) /\
  (exists a rest sn, actions s = a :: rest /\ a_tag a = TEnd /\ a_snap a = Some sn /\
     raw ZL (as_votes sn) + match as_nt sn with Some x => raw ZL x | None => 0 end = cf_nballots cfg * S).
Proof. exact accepted_meek_prf. Qed.
Print Assumptions C08_meek_prf_snapshots_for_every_accepted_file.

(* WHOLE RUN, meek and warren, every arithmetic, profile and fuel: iterations stop only when converged, and candidates are
   excluded only after such an end of iteration.  Take any action [a] of the record of a count that did not crash, with
   [older] the actions logged before it (the list is newest first).
   - If [a] is the 'iterate' action "Iterate (omega)", the total surplus its snapshot shows is not above omega
     ([lev] is the arithmetic's own <=; omega = 1/10^omega10, [omega_or0]).
   - If [a] is "Iterate (stable)", the action logged just before it is the log line "Stable state detected (...)": a surplus
     that stopped decreasing is logged.
   - If [a] is an exclusion, it is either the closing "Defeat remaining" or, going back through the record without crossing
     the round's 'round' action, one meets the 'iterate' action that closed the round's iteration ([last_iter]), and that
     action says omega, stable or batch (batch: a batch of sure losers ends the iteration early).  *)
From Droop Require Import Proofs.MeekExit.
Open Scope string_scope.
Theorem C08_iterations_stop_only_when_converged_whole_run : forall A cfg, cf_method cfg = MMeek ->
  forall pr fuel s k,
  exec (@crashed A) fuel (count_cmd A cfg RMeek) (init_state A cfg pr) = Some (s, k) -> k <> Abort ->
  forall pre a older, actions s = (pre ++ a :: older)%list ->
  (a_tag a = TIterate -> a_msg a = "Iterate (omega)" ->
     exists sn sp, a_snap a = Some sn /\ as_surplus sn = Some sp /\ lev A sp (omega_or0 A cfg) = true) /\
  (a_tag a = TIterate -> a_msg a = "Iterate (stable)" ->
     exists b t, older = b :: t /\ a_tag b = TLog /\ prefix "Stable state detected (" (a_msg b) = true) /\
  (a_tag a = TDefeat -> is_remaining (a_msg a) = true \/ exists m, last_iter A older = Some m /\ converged_msg m = true).
Proof. exact count_meek_exits_spelled. Qed.
Print Assumptions C08_iterations_stop_only_when_converged_whole_run.

Example C08_converged_messages :
  converged_msg "Iterate (omega)" = true /\ converged_msg "Iterate (stable)" = true /\ converged_msg "Iterate (batch)" = true /\
  converged_msg "Iterate (elected)" = false /\ converged_msg "Iterate (none)" = false /\
  is_remaining "Defeat remaining: Cyd" = true /\ is_remaining "Defeat certain loser: Cyd" = false.
Proof. repeat split. Qed.

(* ... and the PRF reference Meek rule (meek-prf), which logs no 'iterate' actions: the exclusion message itself says why the
   iteration ended.  Every exclusion of a count that did not crash is the closing "Defeat remaining", or
   "Defeat (surplus X < omega)" with a recorded total surplus below omega ([ltv]: the arithmetic's own <), or
   "Defeat (stable surplus X)" with the log line "Stable state detected (...)" earlier in the same round ([stable_logged]
   looks back through the record up to the round's 'round' action). *)
Theorem C08_meek_prf_excludes_only_after_convergence_whole_run : forall A cfg, cf_method cfg = MMeek ->
  forall pr fuel s k,
  exec (@crashed A) fuel (count_cmd A cfg RMeekPrf) (init_state A cfg pr) = Some (s, k) -> k <> Abort ->
  forall pre a older, actions s = (pre ++ a :: older)%list -> a_tag a = TDefeat ->
    is_remaining (a_msg a) = true \/
    (prefix "Defeat (surplus " (a_msg a) = true /\
       exists sn sp, a_snap a = Some sn /\ as_surplus sn = Some sp /\ ltv A sp (omega_or0 A cfg) = true) \/
    (prefix "Defeat (stable surplus " (a_msg a) = true /\ stable_logged A older = true).
Proof. exact count_meek_prf_exits. Qed.
Print Assumptions C08_meek_prf_excludes_only_after_convergence_whole_run.
