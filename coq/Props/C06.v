(* C06 -- Gregory transfers: tallies equal ballot values; values only shrink, rounded down.
   Proved per micro-operation for the integer-carrier arithmetics: the transfer value is the prescribed
   truncated quotient (two truncations; Scottish: one), never above the old value, never rounded up;
   transfer() moves a ballot to the first continuing candidate of its ranking at unchanged weight and
   credits exactly its value.  WHOLE RUNS (wigm, wigm-prf(-batch), scotland, cfer(-batch), mpls): every tally is the value of the ballots
   standing with the candidate in every reachable state (C06_tally_is_the_value_of_its_ballots_whole_run).  Rational arithmetic and
   Guarded with guard > 0: ballots-scope correspondence + oracle (P1, P3, P4): _partial. *)
From Coq Require Import ZArith List Bool String.
From Droop Require Import Model.KernelBase Model.Arith Model.State Model.Prims Proofs.Zlike Proofs.Gregory
  Model.Prelude Model.Election Proofs.Conserve Proofs.ConserveCount.
Import ListNotations.
Open Scope Z_scope.

Theorem C06_transfer_value_two_truncations : forall A S (ZL : zlike A S) w surp v, raw ZL v <> 0 ->
  exists w', rew_wigm A w surp v = Ok w' /\ raw ZL w' = fdiv S (fmul S (raw ZL w) (raw ZL surp)) (raw ZL v).
Proof. exact rew_wigm_value. Qed.
Print Assumptions C06_transfer_value_two_truncations.

Theorem C06_transfer_value_scottish : forall A S (ZL : zlike A S) w surp v, raw ZL v <> 0 ->
  exists w', rew_scot A w surp v = Ok w' /\ raw ZL w' = raw ZL w * raw ZL surp / raw ZL v.
Proof. exact rew_scot_value. Qed.
Print Assumptions C06_transfer_value_scottish.

(* never up, never above the old value, between 0 and the old value; loses less than two units *)
Theorem C06_values_only_shrink : forall A S (ZL : zlike A S) w surp v w',
  0 <= raw ZL w -> 0 <= raw ZL surp <= raw ZL v -> 0 < raw ZL v ->
  rew_wigm A w surp v = Ok w' ->
  0 <= raw ZL w' <= raw ZL w /\ raw ZL w' * raw ZL v <= raw ZL w * raw ZL surp /\
  raw ZL w * raw ZL surp - S - raw ZL v < raw ZL w' * raw ZL v.
Proof. exact rew_wigm_bounds. Qed.
Print Assumptions C06_values_only_shrink.

Theorem C06_values_only_shrink_scottish : forall A S (ZL : zlike A S) w surp v w',
  0 <= raw ZL w -> 0 <= raw ZL surp <= raw ZL v -> 0 < raw ZL v ->
  rew_scot A w surp v = Ok w' ->
  0 <= raw ZL w' <= raw ZL w /\ raw ZL w' * raw ZL v <= raw ZL w * raw ZL surp /\
  raw ZL w * raw ZL surp - raw ZL v < raw ZL w' * raw ZL v.
Proof. exact rew_scot_bounds. Qed.
Print Assumptions C06_values_only_shrink_scottish.

(* where transfer() leaves the ballot: past candidates that are not continuing, at the first continuing one (or exhausted) *)
Theorem C06_ballot_stands_with_first_continuing : forall cont r i,
  let j := advance_from cont r i in
  (i <= j <= i + List.length r)%nat /\
  (forall k, (k < j - i)%nat -> exists c, nth_error r k = Some c /\ cont c = false) /\
  (match nth_error r (j - i) with Some c => cont c = true | None => j = (i + List.length r)%nat end).
Proof. exact advance_spec. Qed.
Print Assumptions C06_ballot_stands_with_first_continuing.

Theorem C06_exclusion_moves_ballots_at_unchanged_value_partial : forall A S (ZL : zlike A S) keep (s : est A) (b : ballot A),
  NoDup (map (@cid A) (cands s)) ->
  let r := transfer A keep s b in
  total A S ZL (fst r) = total A S ZL s + raw ZL (bvote A (snd r)) /\
  bweight (snd r) = bweight b /\ bmult (snd r) = bmult b /\ brank (snd r) = brank b /\
  (bidx b <= bidx (snd r))%nat /\
  map (fun c => (cid c, cst c, cpend c)) (cands (fst r)) = map (fun c => (cid c, cst c, cpend c)) (cands s).
Proof. exact transfer_conserves. Qed.
Print Assumptions C06_exclusion_moves_ballots_at_unchanged_value_partial.

(* ---- whole runs (wigm, wigm-prf(-batch), scotland, cfer(-batch), mpls; Fixed, integer, Guarded with guard 0) ----
   In every state a count reaches without crashing: candidate ids are distinct, every ballot has a non-negative weight and
   an integral non-negative multiplier, every candidate's tally IS the value of the ballots standing with it -- except
   candidates that are neither hopeful nor transfer-pending and hold no ballot any more (elected, surplus transferred) --
   and a transfer-pending candidate holds at least the quota.  [stand bs i] = sum of the values of the ballots of bs whose
   current preference is candidate i; [cont c] = hopeful or elected-with-transfer-pending. *)
Theorem C06_tally_is_the_value_of_its_ballots_whole_run : forall A S (ZL : zlike A S) cfg,
  cf_method cfg = MWigm -> exact A = false -> 0 <= cf_nballots cfg -> 0 <= cf_nseats cfg ->
  forall r pr fuel s k, greg_rule r -> wf_profile pr ->
  exec (@crashed A) fuel (count_cmd A cfg r) (init_state A cfg pr) = Some (s, k) -> k <> Abort ->
  NoDup (map (@cid A) (cands s)) /\
  Forall (wfb A S ZL) (ballots s) /\
  (forall c, In c (cands s) ->
     raw ZL (cvote c) = stand A S ZL (ballots s) (cid c) \/ (cont A c = false /\ stand A S ZL (ballots s) (cid c) = 0)) /\
  (forall c, In c (cands s) -> is_pending A c = true -> raw ZL (quota s) <= raw ZL (cvote c)).
Proof. exact count_tally_is_standing. Qed.
Print Assumptions C06_tally_is_the_value_of_its_ballots_whole_run.

(* ---- ... for every ballot file the reader accepts ----
   [parse_file] is the reader model (C15/C16), [to_count_profile] what Election.__init__ reads off the parsed profile
   (Model/EndToEnd.v); the hypothesis "well-formed profile" of the whole-run theorems is discharged by the reader's
   theorem (Proofs/EndToEndLink.v).  ./check runs the composed pipeline (text -> reader model -> count model) against
   the implementation on the same files (correspondence group e2e). *)
From Droop Require Import Model.Profile Model.EndToEnd Proofs.EndToEndLink.

Theorem C06_tally_is_the_value_of_its_ballots_for_every_accepted_file : forall A S (ZL : zlike A S) cfg,
  cf_method cfg = MWigm -> exact A = false -> 0 <= cf_nballots cfg -> 0 <= cf_nseats cfg ->
  forall r text p fuel s k, greg_rule r -> parse_file text = Ok p ->
  exec (@crashed A) fuel (count_cmd A cfg r) (init_state A cfg (to_count_profile p)) = Some (s, k) -> k <> Abort ->
  NoDup (map (@cid A) (cands s)) /\
  Forall (wfb A S ZL) (State.ballots s) /\
  (forall c, In c (cands s) ->
     raw ZL (cvote c) = stand A S ZL (State.ballots s) (cid c) \/ (cont A c = false /\ stand A S ZL (State.ballots s) (cid c) = 0)) /\
  (forall c, In c (cands s) -> is_pending A c = true -> raw ZL (quota s) <= raw ZL (cvote c)).
Proof. exact accepted_tally_is_standing. Qed.
Print Assumptions C06_tally_is_the_value_of_its_ballots_for_every_accepted_file.
