(* C18 -- The record is a faithful audit trail and all renderings agree with it: the renderings half, and of the
   audit-trail half the two whole-run theorems at the end of this file: the record begins with the start of the count and
   ends with its completion, whose step shows the final statuses (every rule, arithmetic, profile, fuel).
   (Elect/defeat actions vs status changes are checked by the trace correspondence and the oracle c18_trail.)  Statements only; every proof is [exact <lemma of
   Proofs/RecordLemmas.v>].  Model.Record is the model of record.py report/dump/json and of the rule hooks
   of rules/electionmethods.py and rules/qpq.py; it is tied to /repo by the `render` correspondence
   (harness/render_driver.py: report, dump and JSON text byte for byte).

   Reading notes.
   * "every dump row has the header's column count" is FALSE for the rows of 'round', 'log' and 'iterate'
     actions, which are [round; tag; msg] (3 cells) whatever the header's width: see
     C18_dump_every_row_has_header_width_refuted (known finding K8).  It is proved for every other row.
   * a recorded action has [a_snap a = Some sn] unless it is a 'log' action (Prims.log_action).
   * statuses: [code_of method state pending] is Candidate.code(); tallies are printed by [str A]. *)
From Coq Require Import ZArith String List Bool.
From Droop Require Import Model.KernelBase Model.Str Model.Arith Model.Prelude Model.State Model.Prims
  Model.Election Model.DriverBase Model.CountCase Model.Record Proofs.RecordLemmas.
Import ListNotations.
Open Scope Z_scope.
Open Scope list_scope.

(* the row of an action that is not round/log/iterate has exactly the header's number of cells *)
Theorem C18_dump_columns : forall (A : arith) (cfg : config) (cs : list (cand A)) (ecids : list Z) (a : action A) sn,
  is_short_tag (a_tag a) = false -> a_snap a = Some sn ->
  length (dump_row A cfg cs ecids a) = length (dump_header cfg ecids).
Proof. exact dump_columns. Qed.
Print Assumptions C18_dump_columns.

(* the table: the header row, then one row per recorded action, oldest first; the rows of round/log/iterate
   actions are [round; tag; msg], every other row has the header's width *)
Theorem C18_dump_table_shape : forall (A : arith) (cfg : config) (s : est A),
  exists rows, dump_table A cfg s = dump_header cfg (elig_cids A s) :: rows /\
    length rows = length (actions s) /\
    forall k a, nth_error (record_actions A s) k = Some a ->
      exists row, nth_error rows k = Some row /\
        (is_short_tag (a_tag a) = true -> row = [string_of_Z (a_round a); tag_name (a_tag a); a_msg a]) /\
        (is_short_tag (a_tag a) = false -> forall sn, a_snap a = Some sn ->
           length row = length (dump_header cfg (elig_cids A s))).
Proof. exact dump_table_shape. Qed.
Print Assumptions C18_dump_table_shape.

(* in such a row the cells of the k-th eligible candidate i sit under the header cells "i.name", "i.state", ...
   and are its name, the code of its status in that action's snapshot, and str of its tally
   (wigm, meek: vote; qpq: quotient) *)
Theorem C18_dump_codes : forall (A : arith) (cfg : config) (cs : list (cand A)) (ecids : list Z) (a : action A) sn k i c,
  is_short_tag (a_tag a) = false -> a_snap a = Some sn ->
  nth_error ecids k = Some i -> lookup_sn A (as_c sn) i = Some c ->
  let w := dump_cand_width cfg in
  let off := (dump_base cfg + k * w)%nat in
  let row := dump_row A cfg cs ecids a in
  firstn w (skipn off (dump_header cfg ecids)) = dump_cid_header cfg i /\
  firstn w (skipn off row) =
    name_of A cs i :: code_of (cf_method cfg) (sn_st c) (sn_pend c) :: dump_value_cells A cfg c /\
  nth_error row off = Some (name_of A cs i) /\
  nth_error row (off + 1) = Some (code_of (cf_method cfg) (sn_st c) (sn_pend c)) /\
  (cf_method cfg <> MQpq -> nth_error row (off + 2) = Some (str A (sn_vote c))) /\
  (cf_method cfg = MQpq -> sn_quo c <> None -> nth_error row (off + 2) = option_map (str A) (sn_quo c)).
Proof. exact dump_codes. Qed.
Print Assumptions C18_dump_codes.

(* the JSON tree lists the record's actions one for one; each action object carries the record's tag, msg,
   round, quota, votes, surplus, nt_votes / residual, and for every candidate of the snapshot (keyed by its
   cid) the record's state, code and vote (as str) *)
Theorem C18_json_agrees : forall (A : arith) (M : arith_meta) (cfg : config) (h : header) (s : est A),
  exists acts, jget "actions" (json_tree A M cfg h s) = Some (JList acts) /\
    length acts = length (actions s) /\
    forall k a, nth_error (record_actions A s) k = Some a ->
      exists ja, nth_error acts k = Some ja /\
        jget "tag" ja = Some (JStr (tag_name (a_tag a))) /\
        jget "msg" ja = Some (JStr (a_msg a)) /\
        jget "round" ja = Some (JInt (a_round a)) /\
        forall sn, a_snap a = Some sn ->
          jget "quota" ja = Some (JStr (str A (as_quota sn))) /\
          jget "votes" ja = Some (JStr (str A (as_votes sn))) /\
          (forall v, as_surplus sn = Some v -> jget "surplus" ja = Some (JStr (str A v))) /\
          (forall v, cf_method cfg = MWigm -> as_nt sn = Some v -> jget "nt_votes" ja = Some (JStr (str A v))) /\
          (forall v, cf_method cfg = MMeek -> as_nt sn = Some v -> jget "residual" ja = Some (JStr (str A v))) /\
          exists entries, jget "cstate" ja = Some (JObj entries) /\ length entries = length (as_c sn) /\
            forall j c, nth_error (as_c sn) j = Some c ->
              exists e, nth_error entries j = Some (string_of_Z (sn_cid c), e) /\
                jget "state" e = Some (JStr (state_name (sn_st c))) /\
                jget "code" e = Some (JStr (code_of (cf_method cfg) (sn_st c) (sn_pend c))) /\
                (sn_st c <> Withdrawn -> jget "vote" e = Some (JStr (str A (sn_vote c)))).
Proof. exact json_agrees. Qed.
Print Assumptions C18_json_agrees.

(* the report: the block of a non-log, non-round action is "Action: msg", then its candidate lines, then the
   rule's totals; the candidate lines are exactly: one line per candidate of the snapshot (in record['cids']
   order) under its status with str of its tally -- Elected / Pending / Hopeful / Defeated (vote > 0), and one
   shared line for the defeated candidates whose vote == 0; QPQ prints quotients and has no Pending class;
   tags that list nobody (tie, unpend, iterate) have no candidate lines.  Note what the equivalence makes
   explicit: a defeated candidate whose vote is neither > 0 nor == 0 is not listed by record.report(). *)
Theorem C18_report_lists_statuses : forall (A : arith) (cfg : config) (h : header) (cs : list (cand A)) (cids : list Z)
    (a : action A) sn,
  a_snap a = Some sn -> a_tag a <> TLog -> a_tag a <> TRound ->
  let l := ordered_snaps A cids sn in
  let block := block_cand_lines A cfg cs cids a sn in
  (exists tail, report_action A cfg h cs cids a = ("Action: " ++ a_msg a ++ nl)%string :: block ++ tail) /\
  (forall c, In c l <-> exists i, In i cids /\ lookup_sn A (as_c sn) i = Some c) /\
  (qpq_section cfg (a_tag a) = false -> lists_cands (a_tag a) = false -> block = []) /\
  (qpq_section cfg (a_tag a) = false -> lists_cands (a_tag a) = true -> forall line,
     In line block <->
     (exists c, In c l /\ sn_st c = Elected /\ pend_true (sn_pend c) = false /\
                line = cand_line A cs "Elected:  " (vote_str A) c) \/
     (exists c, In c l /\ sn_st c = Elected /\ pend_true (sn_pend c) = true /\
                line = cand_line A cs "Pending:  " (vote_str A) c) \/
     (exists c, In c l /\ sn_st c = Hopeful /\ line = cand_line A cs "Hopeful:  " (vote_str A) c) \/
     (exists c, In c l /\ sn_st c = Defeated /\ gtv A (sn_vote c) (of_int A 0) = true /\
                line = cand_line A cs "Defeated: " (vote_str A) c) \/
     (defeated_zero A l <> [] /\ line = zero_defeated_line A cs (defeated_zero A l))) /\
  (qpq_section cfg (a_tag a) = true -> is_tie (a_tag a) = true -> block = []) /\
  (qpq_section cfg (a_tag a) = true -> is_tie (a_tag a) = false -> forall line,
     In line block <->
     (exists c, In c l /\ sn_st c = Elected /\ line = cand_line A cs "Elected:  " (quo_str A) c) \/
     (exists c, In c l /\ sn_st c = Hopeful /\ line = cand_line A cs "Hopeful:  " (quo_str A) c) \/
     (exists c, In c l /\ sn_st c = Defeated /\ line = cand_line A cs "Defeated: " (quo_str A) c)).
Proof. exact report_lists_statuses. Qed.
Print Assumptions C18_report_lists_statuses.

(* the renderings agree with one another: for the k-th recorded action (a full dump row) and a candidate that is
   the p-th eligible one and the j-th entry of the snapshot, the dump row's state / vote cells and the JSON
   action's cstate entry show the same code and the same tally, and both show the same quota
   (wigm and meek; for qpq the dump prints the quotient, see C18_dump_codes) *)
Theorem C18_dump_json_agree : forall (A : arith) (M : arith_meta) (cfg : config) (h : header) (s : est A) k a sn p i j c,
  nth_error (record_actions A s) k = Some a -> is_short_tag (a_tag a) = false -> a_snap a = Some sn ->
  nth_error (elig_cids A s) p = Some i -> lookup_sn A (as_c sn) i = Some c -> nth_error (as_c sn) j = Some c ->
  cf_method cfg <> MQpq ->
  exists row acts ja entries e code vote,
    nth_error (dump_table A cfg s) (S k) = Some row /\
    jget "actions" (json_tree A M cfg h s) = Some (JList acts) /\ nth_error acts k = Some ja /\
    jget "cstate" ja = Some (JObj entries) /\ nth_error entries j = Some (string_of_Z (sn_cid c), e) /\
    code = code_of (cf_method cfg) (sn_st c) (sn_pend c) /\ vote = str A (sn_vote c) /\
    nth_error row (dump_base cfg + p * dump_cand_width cfg + 1) = Some code /\
    nth_error row (dump_base cfg + p * dump_cand_width cfg + 2) = Some vote /\
    nth_error row 2 = Some (str A (as_quota sn)) /\
    jget "code" e = Some (JStr code) /\
    (sn_st c <> Withdrawn -> jget "vote" e = Some (JStr vote)) /\
    jget "quota" ja = Some (JStr (str A (as_quota sn))).
Proof. exact dump_json_agree. Qed.
Print Assumptions C18_dump_json_agree.

(* the premise "a_snap a = Some sn" of the statements above: Prims.log_action (the model of ElectionRecord.action)
   pushes exactly one action, with a snapshot unless the tag is 'log' *)
Theorem C18_recorded_action_has_snapshot : forall (A : arith) (cfg : config) t msg (s : est A),
  exists a, actions (log_action A cfg t msg s) = a :: actions s /\ a_tag a = t /\ a_msg a = msg /\
    (is_log t = false -> exists sn, a_snap a = Some sn) /\ (is_log t = true -> a_snap a = None).
Proof. exact log_action_records. Qed.
Print Assumptions C18_recorded_action_has_snapshot.

(* ---------------------------------------------------------------- non-vacuity, on a concrete count
   (RecordLemmas.c18_ex_*: 4 candidates A B C D, 2 seats, ballots 5 x (A B), 3 x (B), 2 x (C); rule wigm,
   fixed-point arithmetic with 4 places).  The two texts below are the implementation's E.dump() and
   E.report() for that election, verbatim. *)
Example C18_example_count_completes :
  option_map (fun s => (length (actions s), map (fun a => tag_name (a_tag a)) (record_actions c18_ex_arith s))) c18_ex_state =
  Some (16%nat, ["log"; "log"; "log"; "log"; "begin"; "round"; "elect"; "unpend"; "transfer"; "round"; "elect"; "unpend";
                 "transfer"; "defeat"; "defeat"; "end"]%string).
Proof. vm_compute. reflexivity. Qed.

Example C18_example_dump_text :
  option_map (dump_text c18_ex_arith c18_ex_cfg) c18_ex_state = Some
"R	Action	Quota	Non-Transferable	1.name	1.state	1.vote	2.name	2.state	2.vote	3.name	3.state	3.vote	4.name	4.state	4.vote
0	log	Add eligible: A
0	log	Add eligible: B
0	log	Add eligible: C
0	log	Add eligible: D
0	begin	3.3334	0.0000	A	H	5.0000	B	H	3.0000	C	H	2.0000	D	H	0.0000
1	round	New Round
1	elect	3.3334	0.0000	A	e	5.0000	B	H	3.0000	C	H	2.0000	D	H	0.0000
1	unpend	3.3334	0.0000	A	E	5.0000	B	H	3.0000	C	H	2.0000	D	H	0.0000
1	transfer	3.3334	0.0000	A	E	3.3334	B	H	4.6665	C	H	2.0000	D	H	0.0000
2	round	New Round
2	elect	3.3334	0.0000	A	E	3.3334	B	e	4.6665	C	H	2.0000	D	H	0.0000
2	unpend	3.3334	0.0000	A	E	3.3334	B	E	4.6665	C	H	2.0000	D	H	0.0000
2	transfer	3.3334	1.3328	A	E	3.3334	B	E	3.3334	C	H	2.0000	D	H	0.0000
2	defeat	3.3334	1.3328	A	E	3.3334	B	E	3.3334	C	D	2.0000	D	H	0.0000
2	defeat	3.3334	1.3328	A	E	3.3334	B	E	3.3334	C	D	2.0000	D	D	0.0000
X	end	3.3334	1.3328	A	E	3.3334	B	E	3.3334	C	D	2.0000	D	D	0.0000
"%string.
Proof. vm_compute. reflexivity. Qed.

Example C18_example_report_text :
  option_map (report_text c18_ex_arith c18_ex_meta c18_ex_cfg c18_ex_header false) c18_ex_state = Some
"
Election: t

	Droop package: droop v0.14
	Rule: Generic Weighted Inclusive Gregory Method (WIGM)
	Arithmetic: fixed-point decimal arithmetic (4 places)
	Seats: 2
	Ballots: 10
	Quota: 3.3334

	Add eligible: A
	Add eligible: B
	Add eligible: C
	Add eligible: D
Action: Begin Count
	Hopeful:  A (5.0000)
	Hopeful:  B (3.0000)
	Hopeful:  C (2.0000)
	Hopeful:  D (0.0000)
	Elected votes: 0.0000
	Hopeful votes: 10.0000
	Nontransferable votes: 0.0000
	Residual: 0.0000
	Total: 10.0000
	Surplus: 0.0000
Round 1:
Action: Elect, transfer pending: A
	Pending:  A (5.0000)
	Hopeful:  B (3.0000)
	Hopeful:  C (2.0000)
	Hopeful:  D (0.0000)
	Elected votes: 0.0000
	Pending votes: 5.0000
	Hopeful votes: 5.0000
	Nontransferable votes: 0.0000
	Residual: 0.0000
	Total: 10.0000
	Surplus: 0.0000
Action: Transfer high surplus: A
	Elected votes: 5.0000
	Hopeful votes: 5.0000
	Nontransferable votes: 0.0000
	Residual: 0.0000
	Total: 10.0000
	Surplus: 0.0000
Action: Surplus transferred: A (1.6666)
	Elected:  A (3.3334)
	Hopeful:  B (4.6665)
	Hopeful:  C (2.0000)
	Hopeful:  D (0.0000)
	Elected votes: 3.3334
	Hopeful votes: 6.6665
	Nontransferable votes: 0.0000
	Residual: 0.0001
	Total: 10.0000
	Surplus: 0.0000
Round 2:
Action: Elect, transfer pending: B
	Elected:  A (3.3334)
	Pending:  B (4.6665)
	Hopeful:  C (2.0000)
	Hopeful:  D (0.0000)
	Elected votes: 3.3334
	Pending votes: 4.6665
	Hopeful votes: 2.0000
	Nontransferable votes: 0.0000
	Residual: 0.0001
	Total: 10.0000
	Surplus: 0.0000
Action: Transfer high surplus: B
	Elected votes: 7.9999
	Hopeful votes: 2.0000
	Nontransferable votes: 0.0000
	Residual: 0.0001
	Total: 10.0000
	Surplus: 0.0000
Action: Surplus transferred: B (1.3331)
	Elected:  A (3.3334)
	Elected:  B (3.3334)
	Hopeful:  C (2.0000)
	Hopeful:  D (0.0000)
	Elected votes: 6.6668
	Hopeful votes: 2.0000
	Nontransferable votes: 1.3328
	Residual: 0.0004
	Total: 10.0000
	Surplus: 0.0000
Action: Defeat remaining: C
	Elected:  A (3.3334)
	Elected:  B (3.3334)
	Hopeful:  D (0.0000)
	Defeated: C (2.0000)
	Elected votes: 6.6668
	Hopeful votes: 0.0000
	Defeated votes: 2.0000
	Nontransferable votes: 1.3328
	Residual: 0.0004
	Total: 10.0000
	Surplus: 0.0000
Action: Defeat remaining: D
	Elected:  A (3.3334)
	Elected:  B (3.3334)
	Defeated: C (2.0000)
	Defeated: D (0.0000)
	Elected votes: 6.6668
	Hopeful votes: 0.0000
	Defeated votes: 2.0000
	Nontransferable votes: 1.3328
	Residual: 0.0004
	Total: 10.0000
	Surplus: 0.0000
Action: Count Complete
	Elected:  A (3.3334)
	Elected:  B (3.3334)
	Defeated: C (2.0000)
	Defeated: D (0.0000)
	Elected votes: 6.6668
	Hopeful votes: 0.0000
	Defeated votes: 2.0000
	Nontransferable votes: 1.3328
	Residual: 0.0004
	Total: 10.0000
	Surplus: 0.0000
"%string.
Proof. vm_compute. reflexivity. Qed.

(* "every dump row has the header's column count" is false: the header has 16 columns, the rows of the four
   'log' and the two 'round' actions have 3 cells (first component: the width of every row of the table;
   second: the claim, evaluated as a boolean) *)
Example C18_dump_every_row_has_header_width_refuted :
  option_map (fun s =>
    (map (@length string) (dump_table c18_ex_arith c18_ex_cfg s),
     forallb (fun row => Nat.eqb (length row) (length (dump_header c18_ex_cfg (elig_cids c18_ex_arith s))))
             (dump_table c18_ex_arith c18_ex_cfg s))) c18_ex_state =
  Some ([16; 3; 3; 3; 3; 16; 3; 16; 16; 16; 3; 16; 16; 16; 16; 16; 16]%nat, false).
Proof. vm_compute. reflexivity. Qed.

(* the premises of C18_dump_codes are met: action 7 (oldest first) elects A with its transfer pending; its row
   shows code "e" and the tally 5.0000 under "1.state" / "1.vote" *)
Example C18_example_codes :
  option_map (fun s =>
    match nth_error (record_actions c18_ex_arith s) 6 with
    | Some a =>
      match a_snap a with
      | Some sn =>
        match lookup_sn c18_ex_arith (as_c sn) 1 with
        | Some c =>
          Some (tag_name (a_tag a), is_short_tag (a_tag a), nth_error (elig_cids c18_ex_arith s) 0,
                state_name (sn_st c), sn_pend c,
                firstn 3 (skipn 4 (dump_row c18_ex_arith c18_ex_cfg (cands s) (elig_cids c18_ex_arith s) a)),
                firstn 3 (skipn 4 (dump_header c18_ex_cfg (elig_cids c18_ex_arith s))))
        | None => None end
      | None => None end
    | None => None end) c18_ex_state =
  Some (Some ("elect", false, Some 1, "elected", Some true, ["A"; "e"; "5.0000"], ["1.name"; "1.state"; "1.vote"]))%string.
Proof. vm_compute. reflexivity. Qed.

(* JSON: the same action in the tree, and the text layout / escaping of json.dumps(sort_keys=True, indent=2)
   (the literal is Python's output for the same value) *)
Example C18_example_json :
  option_map (fun s =>
    match jget "actions" (json_tree c18_ex_arith c18_ex_meta c18_ex_cfg c18_ex_header s) with
    | Some (JList acts) =>
      match nth_error acts 6 with
      | Some ja => (jget "tag" ja, jget "round" ja,
                    match jget "cstate" ja with Some jc => match jget "1" jc with Some e => (jget "code" e, jget "pending" e, jget "vote" e) | None => (None, None, None) end
                                           | None => (None, None, None) end)
      | None => (None, None, (None, None, None))
      end
    | _ => (None, None, (None, None, None))
    end) c18_ex_state =
  Some (Some (JStr "elect"), Some (JInt 1), (Some (JStr "e"), Some (JBool true), Some (JStr "5.0000")))%string.
Proof. vm_compute. reflexivity. Qed.

Example C18_example_json_text :
  json_text_of (JObj [("e", JObj []);
                      ("k", JList [JInt 1; JInt (-2); JBool true; JNull; JStr "é ""q"" \ 😀
"]);
                      ("l", JList []);
                      ("o", JObj [("x", JObj [("y", JList [])])])]%string) =
"{
  ""e"": {},
  ""k"": [
    1,
    -2,
    true,
    null,
    ""\u00e9 \""q\"" \\ \ud83d\ude00\u007f\n""
  ],
  ""l"": [],
  ""o"": {
    ""x"": {
      ""y"": []
    }
  }
}"%string.
Proof. vm_compute. reflexivity. Qed.


(* ---- WHOLE RUN, every rule and arithmetic: the record begins with the start of the count ... ----
   In the record of a count that did not crash (actions are kept newest first) the oldest action that carries a snapshot
   is the 'begin' action -- for Minneapolis, which logs none, the first 'round' action -- and everything older is the
   snapshot-less log lines of the candidate roll written when the election object was built. *)
From Droop Require Import Proofs.CmdMeta Proofs.Forward Proofs.Audit.
Theorem C18_record_begins_with_the_start_of_the_count : forall A cfg r pr fuel s k,
  exec (@crashed A) fuel (count_cmd A cfg r) (init_state A cfg pr) = Some (s, k) -> k <> Abort ->
  exists l b, actions s = l ++ b :: actions (init_state A cfg pr) /\ a_tag b = begin_tag r /\ (a_snap b <> None) /\
              NoSnapL A (actions (init_state A cfg pr)).
Proof. exact record_begins_with_the_start. Qed.
Print Assumptions C18_record_begins_with_the_start_of_the_count.

(* ... and ends with its completion: a count that ends normally has the 'end' action "Count Complete" as its newest
   action, and that action's snapshot shows exactly the final statuses and pending flags ([ssn] of a snapshot = [stl] of
   the candidates: (id, status, pending) triples) and the final quota -- the winners and losers the election object reports. *)
Theorem C18_record_ends_with_completion_showing_the_final_statuses : forall A cfg r pr fuel s,
  exec (@crashed A) fuel (count_cmd A cfg r) (init_state A cfg pr) = Some (s, Next) ->
  exists sn older, actions s = mkAction TEnd "Count Complete" (round s) (Some sn) :: older /\
    ssn A sn = stl A (cands s) /\ as_quota sn = quota s.
Proof. exact record_ends_with_completion. Qed.
Print Assumptions C18_record_ends_with_completion_showing_the_final_statuses.

(* ---- "every election or exclusion it lists names a candidate whose status changes at that step": Candidate.elect() and
   Candidate.defeat(), the only writers of a status, in every state.  They add exactly one action, tagged 'elect' / 'defeat' and
   named after the candidate ("<message>: <name>"), whose snapshot is the state before with that candidate -- and nobody else --
   moved to elected (with the given pending flag) / defeated; for an id that names nobody they log nothing and the count crashes.
   ([ssn] of a snapshot and [stl] of a candidate list: the (id, status, pending) triples.) *)
Theorem C18_an_election_is_logged_with_its_status_change : forall A cfg i msg p (s : est A),
  match find_cand A (cands s) i with
  | Some c => exists sn, actions (elect A cfg i msg p s) = mkAction TElect (msg ++ ": " ++ cname c)%string (round s) (Some sn) :: actions s /\
                         ssn A sn = stl A (upd_cand A i (fun x => with_st x Elected (Some p)) (cands s)) /\
                         cands (elect A cfg i msg p s) = upd_cand A i (fun x => with_st x Elected (Some p)) (cands s)
  | None => actions (elect A cfg i msg p s) = actions s /\ crashed (elect A cfg i msg p s) = true
  end.
Proof. exact elect_logs_the_change. Qed.
Print Assumptions C18_an_election_is_logged_with_its_status_change.

Theorem C18_an_exclusion_is_logged_with_its_status_change : forall A cfg i msg (s : est A),
  match find_cand A (cands s) i with
  | Some c => exists sn, actions (defeat A cfg i msg s) = mkAction TDefeat (msg ++ ": " ++ cname c)%string (round s) (Some sn) :: actions s /\
                         ssn A sn = stl A (upd_cand A i (fun x => with_st x Defeated (cpend x)) (cands s)) /\
                         cands (defeat A cfg i msg s) = upd_cand A i (fun x => with_st x Defeated (cpend x)) (cands s)
  | None => actions (defeat A cfg i msg s) = actions s /\ crashed (defeat A cfg i msg s) = true
  end.
Proof. exact defeat_logs_the_change. Qed.
Print Assumptions C18_an_exclusion_is_logged_with_its_status_change.
