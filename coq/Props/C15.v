(* C15 -- A well-formed ballot file is read as exactly the election it denotes.
   Statements only; every proof is [exact <lemma of Proofs/>].

   Vocabulary (Model/ProfileSpec.v):
     layout_text l trail   the text made of the raw tokens [map snd l], each preceded by its separator
                           [fst], followed by [trail]; layout_ok / is_ws: separators are arbitrary
                           Unicode whitespace (str.isspace; includes every str.splitlines boundary,
                           CR LF, U+001C..1F, U+0085, U+2028/9 ...), non-empty between tokens
     raw_tokens text       line.split() of every line of text.splitlines()
     tokenize text         the tokens __bltBlob yields;  tok_flat toks: the same machine on one line
     hash_free toks        no token of toks opens a # comment;  comment_run blk d: blk is skipped as /* */ comment
     election, renders_with e junk toks, renders e toks, norm e, valid_election e   (core format, see below)

   FULL STATEMENT aimed at:  for every abstract election e, every choice nu (nickname or number for each
   candidate reference, -n or [withdrawn ...], option order, ballot ids) and every layout lambda (whitespace,
   # comments, nested /* */ comments between tokens):
        parse (layout (tokens_of e nu) lambda) = Ok (norm e).
   PROVED here: (1) layout: whitespace independence in full (C15_raw_tokens_layout, C15_tokenize_layout,
   C15_two_layouts), # comments and nested comment blocks as tok_line-level lemmas (C15_hash_comment,
   C15_comment_block, C15_comment_between); (2) token level for the CORE format -- numbers in any digits
   int() accepts, withdrawn candidates as -n, multipliers, equal rankings, quoted multi-word names containing
   anything but the double quote, title / source / comment, trailing unquoted material
   (C15_parse_rendered_core_partial); (3) their composition for comment-free texts (C15_text_level_core_partial).
   NOT proved (covered by the correspondence run of ./check C15 only): bracket options [nick] [tie]
   [withdrawn] [undeclared] [droop] and nickname references, ballot ids, and the composition of (1)'s comment
   lemmas with (2) into one layout family. *)
From Coq Require Import ZArith String Ascii List Bool.
From Droop Require Import Model.KernelBase Model.Profile Model.ProfileSpec
  Proofs.ParserLemmas Proofs.TokenizerLemmas Proofs.RenderLemmas Proofs.C15Proofs.
Import ListNotations.
Open Scope Z_scope.

(* ---- layout: whitespace *)
Theorem C15_raw_tokens_layout : forall l trail, layout_ok true l -> is_ws trail ->
  raw_tokens (layout_text l trail) = map snd l.
Proof. exact c15_raw_tokens_layout. Qed.
Print Assumptions C15_raw_tokens_layout.

Theorem C15_tokenize_layout : forall l trail, layout_ok true l -> is_ws trail -> hash_free (map snd l) 0 false ->
  tokenize (layout_text l trail) = tok_flat (map snd l).
Proof. exact c15_tokenize_layout. Qed.
Print Assumptions C15_tokenize_layout.

Theorem C15_two_layouts : forall l1 tr1 l2 tr2, layout_ok true l1 -> is_ws tr1 -> layout_ok true l2 -> is_ws tr2 ->
  map snd l1 = map snd l2 -> hash_free (map snd l1) 0 false ->
  tokenize (layout_text l1 tr1) = tokenize (layout_text l2 tr2).
Proof. exact c15_two_layouts. Qed.
Print Assumptions C15_two_layouts.

(* ---- layout: comments *)
Theorem C15_hash_comment : forall pre ic iq out t junk,
  tok_line pre ic iq = (out, 0, false) -> hash_free pre ic iq -> starts_with [cHASH] t = true ->
  tok_line (pre ++ t :: junk) ic iq = (out, 0, false).
Proof. exact c15_hash_comment. Qed.
Print Assumptions C15_hash_comment.

Theorem C15_comment_block : forall blk d d' post, 0 <= d -> comment_run blk d = Some d' ->
  tok_line (blk ++ post) d false = tok_line post d' false.
Proof. exact c15_comment_block. Qed.
Print Assumptions C15_comment_block.

Theorem C15_comment_between : forall pre blk post out,
  tok_line pre 0 false = (out, 0, false) -> hash_free pre 0 false -> comment_run blk 0 = Some 0 ->
  tok_line (pre ++ blk ++ post) 0 false = (let '(o, a, b) := tok_line post 0 false in (out ++ o, a, b)).
Proof. exact c15_comment_between. Qed.
Print Assumptions C15_comment_between.

(* ---- token level, core format *)
Theorem C15_parse_rendered_core_partial : forall e toks, valid_election e -> renders e toks ->
  parse_tokens toks = Ok (norm e).
Proof. exact c15_parse_rendered. Qed.
Print Assumptions C15_parse_rendered_core_partial.

(* ---- text level, core format, any whitespace layout *)
Theorem C15_text_level_core_partial : forall e toks l trail,
  valid_election e -> renders_with e [] toks -> layout_ok true l -> is_ws trail -> map snd l = toks ->
  parse (layout_text l trail) = Ok (norm e).
Proof. exact c15_text_level_plain. Qed.
Print Assumptions C15_text_level_core_partial.

(* with trailing material, under the two tokenizer side conditions *)
Theorem C15_text_level_junk_partial : forall e toks l trail,
  valid_election e -> renders e toks -> layout_ok true l -> is_ws trail -> map snd l = toks ->
  hash_free toks 0 false -> tok_flat toks = toks ->
  parse (layout_text l trail) = Ok (norm e).
Proof. exact c15_text_level. Qed.
Print Assumptions C15_text_level_junk_partial.

(* ---- the normal form of a valid election is a valid profile (C16 through C15) *)
Theorem C15_norm_is_valid : forall e toks, valid_election e -> renders e toks -> valid_profile (norm e).
Proof. exact c15_norm_valid. Qed.
Print Assumptions C15_norm_is_valid.

(* ---- non-vacuity *)
Example C15_ex_rich_reads_as_denoted : parse ex_rich = Ok ex_rich_profile.
Proof. vm_compute. reflexivity. Qed.
Example C15_ex_election_valid : valid_election ex_election.
Proof. exact ex_election_valid. Qed.
Example C15_ex_election_renders : renders_with ex_election [] ex_election_tokens.
Proof. exact ex_election_renders. Qed.
Example C15_ex_election_parses : parse_tokens ex_election_tokens = Ok (norm ex_election).
Proof. vm_compute. reflexivity. Qed.
