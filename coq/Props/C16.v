(* C16 -- Any text is either a valid profile or a clean profile error.
   Statements only; every proof is [exact <lemma of Proofs/ParserLemmas.v>].
   [parse] (Model/Profile.v) is the hand model of ElectionProfile(data=text); it is total by
   construction (every loop is structurally recursive on the unread tokens: no fuel, no OutOfFuel
   outcome), which is the model-side content of "never hangs". *)
From Coq Require Import ZArith String Ascii List Bool.
From Droop Require Import Model.KernelBase Model.Profile Model.ProfileSpec Proofs.ParserLemmas.
Import ListNotations.
Open Scope Z_scope.

(* Every accepted profile satisfies the invariants of a valid election (no withdrawn, repeated or
   out-of-range candidate in a ranking; 1 <= seats <= eligible; ballots >= eligible; ballot total =
   sum of the kept multipliers; names, order, tie order and nicknames defined exactly on 1..nCand,
   tie order and nicknames injective). *)
Theorem C16_accepted_is_valid : forall text p, parse text = Ok p -> valid_profile p.
Proof. exact c16_accepted_is_valid. Qed.
Print Assumptions C16_accepted_is_valid.

Theorem C16_accepted_file_is_valid : forall text p, parse_file text = Ok p -> valid_profile p.
Proof. exact strip_bom_declared. Qed.
Print Assumptions C16_accepted_file_is_valid.

(* FULL STATEMENT (C16_parse_total_clean), false for the code as it stands -- see C16_overflow_refuted:
     forall text, exists r, parse text = r /\ ((exists p, r = Ok p) \/ r = Raise ElectionProfileError).
   Proved: the only other outcome is OverflowError (array.array typecode L in BallotLine.__init__), and only
   when the file declares at least 2^64 candidates.  No UnboundLocalError, ValueError, KeyError, IndexError,
   StopIteration ... branch is reachable. *)
Theorem C16_parse_total_clean_partial : forall text, exists r, parse text = r /\
  ((exists p, r = Ok p) \/ r = Raise ElectionProfileError \/
   (r = Raise OverflowError /\ 18446744073709551616 <= declared_ncand text)).
Proof. exact c16_total_clean_partial. Qed.
Print Assumptions C16_parse_total_clean_partial.

Theorem C16_parse_total_clean_below_2_64 : forall text, declared_ncand text < 18446744073709551616 ->
  exists r, parse text = r /\ ((exists p, r = Ok p) \/ r = Raise ElectionProfileError).
Proof. exact c16_clean_below_2_64. Qed.
Print Assumptions C16_parse_total_clean_below_2_64.

(* the witness: a ballot naming candidate 2^64 in a file that declares 10^20 candidates *)
Theorem C16_overflow_refuted : parse ex_overflow = Raise OverflowError.
Proof. exact c16_overflow_witness. Qed.
Print Assumptions C16_overflow_refuted.

(* The profile-dependent part of Election.__init__ (the candidateOrder / tieOrder / candidateName / nickName
   lookups for every eligible or withdrawn candidate) cannot raise KeyError on a valid, hence on any accepted,
   profile.  PARTIAL with respect to the property's last sentence: option processing, rule lookup and arithmetic
   initialisation of the constructor are not modelled here; ./check C16 runs the real constructor for all 11
   rules on every accepted option-free profile. *)
Theorem C16_constructor_lookups_partial : forall p, valid_profile p -> election_init_lookups p = Ok tt.
Proof. exact c16_ctor_lookups. Qed.
Print Assumptions C16_constructor_lookups_partial.

Theorem C16_accepted_constructor_lookups_partial : forall text p, parse text = Ok p -> election_init_lookups p = Ok tt.
Proof. exact c16_accepted_ctor. Qed.
Print Assumptions C16_accepted_constructor_lookups_partial.

(* non-vacuity: texts that are accepted, and texts that are rejected cleanly *)
Example C16_ex_accepts : exists p, parse ex_plain = Ok p /\ p_nCand p = 2 /\ p_nBallots p = 2.
Proof. vm_compute. eexists. split; [reflexivity|]. split; reflexivity. Qed.
Example C16_ex_rich_accepts : parse ex_rich = Ok ex_rich_profile.
Proof. vm_compute. reflexivity. Qed.
Example C16_ex_truncated : parse ex_truncated = Raise ElectionProfileError.
Proof. vm_compute. reflexivity. Qed.
Example C16_ex_bad_withdrawn : parse ex_bad_withdrawn = Raise ElectionProfileError.
Proof. vm_compute. reflexivity. Qed.
Example C16_ex_empty : parse [] = Raise ElectionProfileError.
Proof. vm_compute. reflexivity. Qed.
