(* C13 -- Guarded arithmetic: tolerance law, guard=0 is Fixed (per operation).
   Statements only; kernels of Gen.GuardedKernels / Gen.FixedKernels are regenerated from /repo. *)
From Coq Require Import ZArith QArith List Bool.
From Droop Require Import Model.KernelBase Model.Arith Gen.FixedKernels Gen.GuardedKernels
  Model.Prims Model.Election Proofs.ArithLemmas Proofs.GuardedLemmas Proofs.C13Proofs Proofs.ArithEq Proofs.CountEq.
Import ListNotations.
Open Scope Z_scope.

(* (a) for any pair exactly one of <, ==, > holds *)
Theorem C13_trichotomy : forall st a b, 1 <= g_geps st ->
  exists lt eq gt, dunder_lt st a (OVal b) = Ok lt /\ dunder_eq st a (OVal b) = Ok eq /\
                   dunder_gt st a (OVal b) = Ok gt /\
                   ((lt = true /\ eq = false /\ gt = false) \/ (lt = false /\ eq = true /\ gt = false) \/
                    (lt = false /\ eq = false /\ gt = true)).
Proof. exact c13_trichotomy. Qed.
Print Assumptions C13_trichotomy.

(* (a) equal exactly when the stored values differ by less than half a unit of the declared precision
   (one unit of precision = 10^g raw units), otherwise ordered as the stored values *)
Theorem C13_tolerance_law : forall p g d s a b, 0 <= g ->
  let st := mk_guarded_cls p g d s in
  (dunder_eq st a (OVal b) = Ok true <-> 2 * Z.abs (a - b) < 10 ^ g) /\
  (dunder_lt st a (OVal b) = Ok true <-> 10 ^ g <= 2 * Z.abs (a - b) /\ a < b) /\
  (dunder_gt st a (OVal b) = Ok true <-> 10 ^ g <= 2 * Z.abs (a - b) /\ b < a) /\
  (dunder_le st a (OVal b) = Ok true <-> 2 * Z.abs (a - b) < 10 ^ g \/ a < b) /\
  (dunder_ge st a (OVal b) = Ok true <-> 2 * Z.abs (a - b) < 10 ^ g \/ b < a) /\
  (dunder_ne st a (OVal b) = Ok true <-> 10 ^ g <= 2 * Z.abs (a - b)).
Proof. exact c13_tolerance. Qed.
Print Assumptions C13_tolerance_law.

(* (b) guard = 0: every operation coincides with the Fixed operation of the same precision *)
Theorem C13_guard0_constructor : forall p d s o,
  GuardedKernels.init (mk_guarded_cls p 0 d s) o false = FixedKernels.init (mk_fixed_cls p d) o false.
Proof. exact g0_init. Qed.
Print Assumptions C13_guard0_constructor.

Theorem C13_guard0_operators : forall p d s a (o : operand),
  let sg := mk_guarded_cls p 0 d s in let sf := mk_fixed_cls p d in
  GuardedKernels.dunder_add sg a o = FixedKernels.dunder_add sf a o /\
  GuardedKernels.dunder_sub sg a o = FixedKernels.dunder_sub sf a o /\
  GuardedKernels.dunder_neg sg a = FixedKernels.dunder_neg sf a /\
  GuardedKernels.dunder_pos sg a = FixedKernels.dunder_pos sf a /\
  GuardedKernels.dunder_abs sg a = FixedKernels.dunder_abs sf a /\
  GuardedKernels.dunder_bool sg a = FixedKernels.dunder_bool sf a /\
  GuardedKernels.dunder_mul sg a o = FixedKernels.dunder_mul sf a o /\
  GuardedKernels.dunder_floordiv sg a o = FixedKernels.dunder_floordiv sf a o /\
  GuardedKernels.dunder_truediv sg a o = FixedKernels.dunder_truediv sf a o.
Proof. exact g0_ops. Qed.
Print Assumptions C13_guard0_operators.

Theorem C13_guard0_rounding_kernels : forall p d s (A B C : operand) r, r = RUp \/ r = RDown ->
  let sg := mk_guarded_cls p 0 d s in let sf := mk_fixed_cls p d in
  GuardedKernels.mul sg A B r = FixedKernels.mul sf A B r /\
  GuardedKernels.div sg A B r = FixedKernels.div sf A B r /\
  GuardedKernels.muldiv sg A B C r = FixedKernels.muldiv sf A B C r.
Proof. exact g0_round. Qed.
Print Assumptions C13_guard0_rounding_kernels.

Theorem C13_guard0_comparisons : forall p d s a b,
  let sg := mk_guarded_cls p 0 d s in let sf := mk_fixed_cls p d in
  GuardedKernels.dunder_eq sg a (OVal b) = FixedKernels.dunder_eq sf a (OVal b) /\
  GuardedKernels.dunder_ne sg a (OVal b) = FixedKernels.dunder_ne sf a (OVal b) /\
  GuardedKernels.dunder_lt sg a (OVal b) = FixedKernels.dunder_lt sf a (OVal b) /\
  GuardedKernels.dunder_le sg a (OVal b) = FixedKernels.dunder_le sf a (OVal b) /\
  GuardedKernels.dunder_gt sg a (OVal b) = FixedKernels.dunder_gt sf a (OVal b) /\
  GuardedKernels.dunder_ge sg a (OVal b) = FixedKernels.dunder_ge sf a (OVal b).
Proof. exact g0_compare. Qed.
Print Assumptions C13_guard0_comparisons.

Theorem C13_guard0_min : forall p d s l, l <> [] ->
  GuardedKernels.min (mk_guarded_cls p 0 d s) l = FixedKernels.min (mk_fixed_cls p d) l.
Proof. exact g0_min. Qed.
Print Assumptions C13_guard0_min.

(* (b) ... and in every count: with guard = 0 the Guarded instance the count model runs on IS the Fixed
   instance of the same precision (records of functions compared with functional extensionality), so
   every count -- any rule, profile, options, fuel -- yields the identical trace: same actions, statuses,
   raw and printed tallies, ballot weights, outcome.  (precision >= 1: Fixed with precision 0 is 'integer'
   arithmetic, which prints without a decimal point; reading note in DESIGN.md, C13.) *)
Theorem C13_guard0_instance : forall p d s, 1 <= p -> 0 <= d -> Guarded p 0 d s = Fixed p d.
Proof. exact guard0_is_fixed. Qed.
Print Assumptions C13_guard0_instance.

Theorem C13_guard0_every_count : forall p d s cfg fuel r pr, 1 <= p -> 0 <= d ->
  trace (Guarded p 0 d s) cfg fuel r pr = trace (Fixed p d) cfg fuel r pr.
Proof. exact trace_guard0. Qed.
Print Assumptions C13_guard0_every_count.

(* (c), proved part: with guard > 0 every multiplicative operation is the exact result rounded
   toward minus infinity at p+g places (at most one unit below, never above), whatever [round] says *)
Theorem C13_quasi_exact_operations_partial : forall st a b c r, g_guard st <> 0 -> g_scale st <> 0 ->
  GuardedKernels.mul st (OVal a) (OVal b) r = Ok (a * b / g_scale st) /\
  (b <> 0 -> GuardedKernels.div st (OVal a) (OVal b) r = Ok (a * g_scale st / b)) /\
  (c <> 0 -> GuardedKernels.muldiv st (OVal a) (OVal b) (OVal c) r = Ok (a * b / c)) /\
  GuardedKernels.dunder_mul st a (OVal b) = Ok (a * b / g_scale st) /\
  (b <> 0 -> GuardedKernels.dunder_truediv st a (OVal b) = Ok (a * g_scale st / b)).
Proof. exact c13_guarded_floor. Qed.
Print Assumptions C13_quasi_exact_operations_partial.

Example C13_nonvacuous :
  1 <= g_geps (mk_guarded_cls 9 9 9 0) /\ g_geps (mk_guarded_cls 4 0 4 0) = 1 /\
  dunder_eq (mk_guarded_cls 2 2 2 0) 1049 (OVal 1000) = Ok true /\
  dunder_eq (mk_guarded_cls 2 2 2 0) 1050 (OVal 1000) = Ok false /\
  dunder_gt (mk_guarded_cls 2 2 2 0) 1050 (OVal 1000) = Ok true.
Proof. vm_compute. repeat split; discriminate. Qed.
