(* C03 -- Statutory rules carry out their published procedure, stage by stage.
   The deciding tie is the ENTIRE-trace correspondence: the Coq model of each statutory rule is the procedure
   (command tree mirroring the rule text clause by clause) over the proved decimal arithmetic, and the
   implementation must reproduce its history to the last digit on every generated election.  Clause theorems
   proved here for the statutory parameters (instances of the C04/C06/C07/C12 theorems): *)
From Coq Require Import ZArith List Bool String.
From Droop Require Import Model.KernelBase Model.Arith Model.State Model.Prims Model.RulesGregory Model.RulesMeek
  Proofs.Zlike Proofs.Quota Proofs.Gregory Proofs.Ties Proofs.ArithLemmas Gen.FixedKernels.
Import ListNotations.
Open Scope Z_scope.

Definition prf := zlike_fixed 4 4 ltac:(discriminate).       (* PRF WIGM, Minneapolis: four decimal places *)
Definition five := zlike_fixed 5 5 ltac:(discriminate).      (* Scottish order, CfER: five decimal places *)

(* PRF WIGM A.1 / CfER: "total valid ballots divided by one more than the seats, plus 0.0001" (in 10^-4 units) *)
Theorem C03_prf_A1_quota : forall cfg, 0 <= cf_nseats cfg ->
  exists q, droop_quota_eps (Fixed 4 4) cfg = Ok q /\ q = cf_nballots cfg * 10 ^ 4 / (cf_nseats cfg + 1) + 1.
Proof. exact (fun cfg H => droop_quota_eps_value (Fixed 4 4) (10 ^ 4) prf cfg H eq_refl). Qed.
Print Assumptions C03_prf_A1_quota.

(* Scottish rule 46 / Minneapolis 167.20 Threshold: floor(ballots/(seats+1)) + 1 *)
Theorem C03_scottish_46_quota : forall cfg,
  integer_droop_quota (Fixed 5 5) cfg = (cf_nballots cfg / (cf_nseats cfg + 1) + 1) * 10 ^ 5.
Proof. exact (integer_quota_value (Fixed 5 5) (10 ^ 5) five). Qed.
Print Assumptions C03_scottish_46_quota.

(* PRF WIGM B.3 + D.4: new weight = weight x surplus, then / vote, each truncated to four places *)
Theorem C03_prf_B3_D4_transfer_value : forall w surp v : Z, v <> 0 ->
  exists w', rew_wigm (Fixed 4 4) w surp v = Ok w' /\ w' = (w * surp / 10 ^ 4) * 10 ^ 4 / v.
Proof. exact (fun w surp v H => rew_wigm_value (Fixed 4 4) (10 ^ 4) prf w surp v H). Qed.
Print Assumptions C03_prf_B3_D4_transfer_value.

(* Scottish 48(3): surplus x transfer value / total, one truncation at five places *)
Theorem C03_scottish_48_3_transfer_value : forall w surp v : Z, v <> 0 ->
  exists w', rew_scot (Fixed 5 5) w surp v = Ok w' /\ w' = w * surp / v.
Proof. exact (fun w surp v H => rew_scot_value (Fixed 5 5) (10 ^ 5) five w surp v H). Qed.
Print Assumptions C03_scottish_48_3_transfer_value.

(* PRF B.4 / 50: the candidates offered for exclusion are exactly those with the lowest vote *)
Theorem C03_prf_B4_lowest : forall (s : est (Fixed 4 4)) lv lows,
  low_candidates (Fixed 4 4) s = Some (lv, lows) ->
  lows <> [] /\ (forall c, In c lows <-> In c (hopefuls (Fixed 4 4) s) /\ cvote c = lv) /\
  (forall c, In c (hopefuls (Fixed 4 4) s) -> lv <= cvote c).
Proof. exact (low_candidates_spec (Fixed 4 4) (10 ^ 4) prf eq_refl). Qed.
Print Assumptions C03_prf_B4_lowest.

(* PRF D.1: ties are broken among the tied candidates and logged *)
Theorem C03_prf_D1_ties : forall cfg fmt tied (s : est (Fixed 4 4)) i s',
  break_tie (Fixed 4 4) cfg fmt tied s = (s', Some i) -> exists c, In c tied /\ cid c = i.
Proof. exact (fun cfg fmt tied s i s' H => proj1 (break_tie_spec (Fixed 4 4) cfg fmt tied s i s' H)). Qed.
Print Assumptions C03_prf_D1_ties.
