(* C12 -- Fixed-point and rational arithmetic compute exactly what they claim.
   Statements only; every proof is [exact <lemma of Proofs/>].  The kernels
   of Gen.FixedKernels are regenerated from /repo/droop/values/fixed.py on every run. *)
From Coq Require Import ZArith QArith Qround Qabs List Bool String.
From Droop Require Import Model.KernelBase Model.Arith Gen.FixedKernels Gen.RationalWrapped
  Proofs.ArithLemmas Proofs.C12Proofs Proofs.C12Bracket.
Import ListNotations.
Open Scope Z_scope.

(* valQ S r   = the exact value r / S of raw integer r;   S = 10^p
   floor_at S x = raw integer of x rounded toward minus infinity at p places
   exact_at S x = x is representable at p places
   rounded st RDown x r := r = floor_at S x
   rounded st RUp   x r := (exact -> r = floor) /\ (inexact -> r = floor + 1)            *)

Theorem C12_exact_operations : forall st p, fixed_state_ok st p -> forall a b n,
  let S := f_scale st in
  (exists r, dunder_add st a (OVal b) = Ok r /\ valQ S r == valQ S a + valQ S b) /\
  (exists r, dunder_add st a (OInt n) = Ok r /\ valQ S r == valQ S a + inject_Z n) /\
  (exists r, dunder_sub st a (OVal b) = Ok r /\ valQ S r == valQ S a - valQ S b) /\
  (exists r, dunder_sub st a (OInt n) = Ok r /\ valQ S r == valQ S a - inject_Z n) /\
  (exists r, dunder_neg st a = Ok r /\ valQ S r == - valQ S a) /\
  (exists r, dunder_pos st a = Ok r /\ valQ S r == valQ S a) /\
  (exists r, dunder_abs st a = Ok r /\ valQ S r == Qabs (valQ S a)) /\
  (exists r, dunder_mul st a (OInt n) = Ok r /\ valQ S r == valQ S a * inject_Z n) /\
  (init st (OInt n) false = n * S /\ valQ S (n * S) == inject_Z n).
Proof. exact c12_exact_ops. Qed.
Print Assumptions C12_exact_operations.

Theorem C12_mul_rounding : forall st p, fixed_state_ok st p -> forall a b r, r = RUp \/ r = RDown ->
  exists res, mul st (OVal a) (OVal b) r = Ok res /\
              rounded st r (valQ (f_scale st) a * valQ (f_scale st) b) res.
Proof. exact c12_mul. Qed.
Print Assumptions C12_mul_rounding.

Theorem C12_div_rounding : forall st p, fixed_state_ok st p -> forall a b r, r = RUp \/ r = RDown -> b <> 0 ->
  exists res, div st (OVal a) (OVal b) r = Ok res /\
              rounded st r (valQ (f_scale st) a / valQ (f_scale st) b) res.
Proof. exact c12_div. Qed.
Print Assumptions C12_div_rounding.

Theorem C12_muldiv_rounding : forall st p, fixed_state_ok st p -> forall a b c r,
  r = RUp \/ r = RDown -> c <> 0 ->
  exists res, muldiv st (OVal a) (OVal b) (OVal c) r = Ok res /\
              rounded st r (valQ (f_scale st) a * valQ (f_scale st) b / valQ (f_scale st) c) res.
Proof. exact c12_muldiv. Qed.
Print Assumptions C12_muldiv_rounding.

Theorem C12_star_operator : forall st p, fixed_state_ok st p -> forall a b,
  dunder_mul st a (OVal b) = Ok (floor_at (f_scale st) (valQ (f_scale st) a * valQ (f_scale st) b)).
Proof. exact c12_star. Qed.
Print Assumptions C12_star_operator.

Theorem C12_slash_operators : forall st p, fixed_state_ok st p -> forall a b, b <> 0 ->
  let q := floor_at (f_scale st) (valQ (f_scale st) a / valQ (f_scale st) b) in
  dunder_truediv st a (OVal b) = Ok q /\ dunder_floordiv st a (OVal b) = Ok q /\ dunder_div st a (OVal b) = Ok q.
Proof. exact c12_slash. Qed.
Print Assumptions C12_slash_operators.

Theorem C12_slash_by_int : forall st p, fixed_state_ok st p -> forall a n, n <> 0 ->
  dunder_floordiv st a (OInt n) = Ok (floor_at (f_scale st) (valQ (f_scale st) a / inject_Z n)).
Proof. exact c12_slash_int. Qed.
Print Assumptions C12_slash_by_int.

(* the excluded domain: what the code rejects, and how *)
Theorem C12_rejected_domain : forall st a b c r,
  div st (OVal a) (OVal 0) RUp = Raise ZeroDivisionError /\
  div st (OVal a) (OVal 0) RDown = Raise ZeroDivisionError /\
  muldiv st (OVal a) (OVal b) (OVal 0) r = Raise ZeroDivisionError /\
  dunder_floordiv st a (OVal 0) = Raise ZeroDivisionError /\
  dunder_floordiv st a (OInt 0) = Raise ZeroDivisionError /\
  mul st (OVal a) (OVal b) RNone = Raise ValueError /\
  mul st (OVal a) (OVal b) ROther = Raise ValueError /\
  (c <> 0 -> muldiv st (OVal a) (OVal b) (OVal c) RNone = Raise ValueError) /\
  (b <> 0 -> div st (OVal a) (OVal b) RNone = Raise ValueError).
Proof. exact c12_rejects. Qed.
Print Assumptions C12_rejected_domain.

Theorem C12_comparisons : forall st p, fixed_state_ok st p -> forall a b,
  let S := f_scale st in
  (dunder_lt st a (OVal b) = Ok true <-> (valQ S a < valQ S b)%Q) /\
  (dunder_gt st a (OVal b) = Ok true <-> (valQ S b < valQ S a)%Q) /\
  (dunder_le st a (OVal b) = Ok true <-> (valQ S a <= valQ S b)%Q) /\
  (dunder_ge st a (OVal b) = Ok true <-> (valQ S b <= valQ S a)%Q) /\
  (dunder_eq st a (OVal b) = Ok true <-> (valQ S a == valQ S b)%Q) /\
  (dunder_ne st a (OVal b) = Ok true <-> ~ (valQ S a == valQ S b)%Q) /\
  (exists t, dunder_lt st a (OVal b) = Ok t) /\ (exists t, dunder_eq st a (OVal b) = Ok t).
Proof. exact c12_compare. Qed.
Print Assumptions C12_comparisons.

Theorem C12_min : forall st p, fixed_state_ok st p -> forall l : list Z, l <> [] ->
  exists m, FixedKernels.min st l = Ok m /\ In m l /\
            forall y, In y l -> (valQ (f_scale st) m <= valQ (f_scale st) y)%Q.
Proof. exact c12_min. Qed.
Print Assumptions C12_min.

Theorem C12_integer_is_zero_places : forall st a b, fixed_state_ok st 0 -> b <> 0 ->
  dunder_mul st a (OVal b) = Ok (a * b) /\ dunder_truediv st a (OVal b) = Ok (a / b) /\
  mul st (OVal a) (OVal b) RDown = Ok (a * b) /\ init st (OInt a) false = a.
Proof. exact c12_integer. Qed.
Print Assumptions C12_integer_is_zero_places.

Theorem C12_rational_exact : forall dp (a b : Q),
  (add (Rational dp) a b == a + b)%Q /\ (sub (Rational dp) a b == a - b)%Q /\
  (mulv (Rational dp) a b == a * b)%Q /\
  (forall up, kmul (Rational dp) a b up == a * b)%Q /\
  (~ b == 0 -> exists q, divv (Rational dp) a b = Ok q /\ q == a / b)%Q /\
  (~ b == 0 -> forall up, exists q, kdiv (Rational dp) a b up = Ok q /\ q == a / b)%Q /\
  (forall c up, ~ c == 0 -> exists q, kmuldiv (Rational dp) a b c up = Ok q /\ q == a * b / c)%Q /\
  (ltv (Rational dp) a b = true <-> a < b)%Q /\ (eqv (Rational dp) a b = true <-> a == b)%Q.
Proof. exact c12_rational_exact. Qed.
Print Assumptions C12_rational_exact.

(* class closure: every operator the property lists is re-wrapped to return Rational
   (rational_wrapped is regenerated from rational.py) *)
Theorem C12_rational_closed :
  forallb (fun n => existsb (String.eqb n) rational_wrapped) rational_operators = true.
Proof. exact c12_rational_closed. Qed.
Print Assumptions C12_rational_closed.

(* what the two rounding shapes mean for the exact values, without reference to Qfloor:
   down = the greatest value of the class not above the exact result (so the count never credits more than exists),
   up   = the least value of the class not below it; either way the error is below one unit of the last place *)
Theorem C12_round_down_is_greatest_below : forall st p, fixed_state_ok st p -> forall x res,
  rounded st RDown x res ->
  let S := f_scale st in
  (valQ S res <= x)%Q /\ (x < valQ S (res + 1))%Q /\ (forall n, (valQ S n <= x)%Q -> n <= res).
Proof. exact c12_down_greatest. Qed.
Print Assumptions C12_round_down_is_greatest_below.

Theorem C12_round_up_is_least_above : forall st p, fixed_state_ok st p -> forall x res,
  rounded st RUp x res ->
  let S := f_scale st in
  (x <= valQ S res)%Q /\ (valQ S (res - 1) < x)%Q /\ (forall n, (x <= valQ S n)%Q -> res <= n).
Proof. exact c12_up_least. Qed.
Print Assumptions C12_round_up_is_least_above.

Theorem C12_rounding_error_below_one_unit : forall st p, fixed_state_ok st p -> forall r x res,
  r = RUp \/ r = RDown -> rounded st r x res ->
  (Qabs (valQ (f_scale st) res - x) < valQ (f_scale st) 1)%Q.
Proof. exact c12_error_below_unit. Qed.
Print Assumptions C12_rounding_error_below_one_unit.

(* operand-order symmetry of the product and of the fused multiply-divide *)
Theorem C12_operand_order : forall st p, fixed_state_ok st p -> forall a b c r, r = RUp \/ r = RDown ->
  mul st (OVal a) (OVal b) r = mul st (OVal b) (OVal a) r /\
  (c <> 0 -> muldiv st (OVal a) (OVal b) (OVal c) r = muldiv st (OVal b) (OVal a) (OVal c) r).
Proof. exact c12_operand_order. Qed.
Print Assumptions C12_operand_order.

(* non-vacuity: the state initialize() builds meets the hypothesis, and a concrete instance *)
Example C12_hyp_met : fixed_state_ok (mk_fixed_cls 4 4) 4 /\ fixed_state_ok (mk_fixed_cls 0 0) 0.
Proof. split; apply mk_fixed_cls_ok; discriminate. Qed.
Example C12_concrete :
  mul (mk_fixed_cls 4 4) (OVal 3333) (OVal 20000) RUp = Ok 6666 /\
  div (mk_fixed_cls 4 4) (OVal 10000) (OVal 30000) RUp = Ok 3334 /\
  div (mk_fixed_cls 4 4) (OVal (-10000)) (OVal 30000) RDown = Ok (-3334) /\
  muldiv (mk_fixed_cls 4 4) (OVal 10000) (OVal 10000) (OVal 30000) RDown = Ok 3333.
Proof. vm_compute. repeat split. Qed.
