(* C07 -- Only lowest candidates are excluded; ties follow the tie order and are logged.
   Proved per micro-operation: the candidates offered for a single exclusion are exactly the hopefuls at the
   minimum tally (non-fuzzy arithmetics); breakTie picks one of the tied, silently when there is one,
   otherwise logging exactly one 'tie' action that names the tied set and the choice; an empty tie list is
   the IndexError crash (open finding K3 is that crash).  Sure-loser batches, largest-surplus-first,
   Scottish prior-stage rule, tie-order independence: values-scope correspondence + oracle (_partial). *)
From Coq Require Import ZArith List Bool String.
From Droop Require Import Model.KernelBase Model.Arith Model.State Model.Prims Proofs.Zlike Proofs.Ties Proofs.SortLemmas.
Import ListNotations.
Open Scope Z_scope.

Theorem C07_lowest_candidates : forall A S (ZL : zlike A S), exact A = false -> forall (s : est A) lv lows,
  low_candidates A s = Some (lv, lows) ->
  lows <> [] /\
  (forall c, In c lows <-> In c (hopefuls A s) /\ raw ZL (cvote c) = raw ZL lv) /\
  (forall c, In c (hopefuls A s) -> raw ZL lv <= raw ZL (cvote c)).
Proof. exact low_candidates_spec. Qed.
Print Assumptions C07_lowest_candidates.

Theorem C07_tie_break_chooses_among_tied_and_logs : forall A cfg fmt tied (s : est A) i s',
  break_tie A cfg fmt tied s = (s', Some i) ->
  (exists c, In c tied /\ cid c = i) /\
  ((exists c, tied = [c] /\ s' = s) \/
   (2 <= List.length tied)%nat /\ exists c, In c tied /\ cid c = i /\ s' = log_action A cfg TTie (fmt (names A tied) (cname c)) s).
Proof. exact break_tie_spec. Qed.
Print Assumptions C07_tie_break_chooses_among_tied_and_logs.

Theorem C07_empty_tie_is_the_indexerror_crash : forall A cfg fmt tied (s : est A) s',
  break_tie A cfg fmt tied s = (s', None) -> tied = [] /\ s' = set_crash s IndexError.
Proof. exact break_tie_none_crashes. Qed.
Print Assumptions C07_empty_tie_is_the_indexerror_crash.
