(* C07 -- Only lowest candidates are excluded; ties follow the tie order and are logged.
   Proved per micro-operation: the candidates offered for a single exclusion are exactly the hopefuls at the
   minimum tally (non-fuzzy arithmetics); breakTie picks one of the tied, silently when there is one,
   otherwise logging exactly one 'tie' action that names the tied set and the choice; an empty tie list is
   the IndexError crash -- which the Meek defeat step cannot reach any more (fix F11): for Fixed, Guarded and
   Rational arithmetic the list it offers is never empty.  Sure-loser batches, largest-surplus-first,
   Scottish prior-stage rule, tie-order independence: values-scope correspondence + oracle (_partial). *)
From Coq Require Import ZArith List Bool String.
From Droop Require Import Model.KernelBase Model.Arith Model.State Model.Prims Model.RulesMeek Proofs.Zlike Proofs.Ties Proofs.SortLemmas Proofs.MeekLow.
Import ListNotations.
Open Scope Z_scope.

Theorem C07_lowest_candidates : forall A S (ZL : zlike A S), exact A = false -> forall (s : est A) lv lows,
  low_candidates A s = Some (lv, lows) ->
  lows <> [] /\
  (forall c, In c lows <-> In c (hopefuls A s) /\ raw ZL (cvote c) = raw ZL lv) /\
  (forall c, In c (hopefuls A s) -> raw ZL lv <= raw ZL (cvote c)).
Proof. exact low_candidates_spec. Qed.
Print Assumptions C07_lowest_candidates.

Theorem C07_tie_break_chooses_among_tied_and_logs : forall A cfg fmt tied (s : est A) i s',
  break_tie A cfg fmt tied s = (s', Some i) ->
  (exists c, In c tied /\ cid c = i) /\
  ((exists c, tied = [c] /\ s' = s) \/
   (2 <= List.length tied)%nat /\ exists c, In c tied /\ cid c = i /\ s' = log_action A cfg TTie (fmt (names A tied) (cname c)) s).
Proof. exact break_tie_spec. Qed.
Print Assumptions C07_tie_break_chooses_among_tied_and_logs.

Theorem C07_empty_tie_is_the_indexerror_crash : forall A cfg fmt tied (s : est A) s',
  break_tie A cfg fmt tied s = (s', None) -> tied = [] /\ s' = set_crash s IndexError.
Proof. exact break_tie_none_crashes. Qed.
Print Assumptions C07_empty_tie_is_the_indexerror_crash.

(* Meek/Warren/meek-prf defeat step: the candidates "within the surplus of the lowest tally" -- or, when rounding has
   left the total surplus negative and nobody is, the holders of the lowest tally -- are never an empty list *)
Theorem C07_meek_tied_list_never_empty : forall A, minlaws A -> forall (s : est A) lows,
  low_within_surplus A s = Ok lows -> lows <> [].
Proof. exact low_within_nonempty. Qed.
Print Assumptions C07_meek_tied_list_never_empty.

Theorem C07_meek_tied_list_arithmetics :
  (forall p d, minlaws (Fixed p d)) /\ (forall p g d st, 0 <= g -> minlaws (Guarded p g d st)) /\ (forall dp, minlaws (Rational dp)).
Proof. exact (conj minlaws_fixed (conj minlaws_guarded minlaws_rational)). Qed.
Print Assumptions C07_meek_tied_list_arithmetics.

(* ---- "A candidate excluded singly is always one with the lowest tally among continuing candidates": the single-exclusion
   step of every Gregory rule, in EVERY state it can be run in (Fixed / integer / Guarded guard 0).
   [excludes_a_lowest s s'] : there is a hopeful candidate c of s whose tally is <= every hopeful's tally, and the statuses
   and pending flags of s' are those of s with c (and nobody else) changed to defeated. *)
From Droop Require Import Model.RulesGregory Proofs.Forward Proofs.ForwardOps Proofs.LowestExcluded.
Theorem C07_single_exclusion_excludes_a_lowest_candidate : forall A S (ZL : zlike A S) cfg, exact A = false ->
  forall bt msg (s : est A), bt_ok A bt ->
  crashed (defeat_low A cfg bt msg s) = false ->
  excludes_a_lowest A S ZL s (defeat_low A cfg bt msg s) \/
  (exists lv lows, low_candidates A s = Some (lv, lows) /\ snd (bt lows s) = None).
Proof. exact defeat_low_excludes_a_lowest. Qed.
Print Assumptions C07_single_exclusion_excludes_a_lowest_candidate.

(* with the tie-break by lot of wigm, wigm-prf, cfer and mpls the second case is a crash, so: *)
Theorem C07_single_exclusion_wigm_prf : forall A S (ZL : zlike A S) cfg, exact A = false -> forall reason msg (s : est A),
  crashed (defeat_low A cfg (bt_simple A cfg reason) msg s) = false ->
  excludes_a_lowest A S ZL s (defeat_low A cfg (bt_simple A cfg reason) msg s).
Proof. exact defeat_low_simple_excludes_a_lowest. Qed.
Print Assumptions C07_single_exclusion_wigm_prf.

Theorem C07_single_exclusion_wigm : forall A S (ZL : zlike A S) cfg, exact A = false -> forall s : est A,
  cf_batch_zero cfg = false -> crashed (wigm_defeat A cfg s) = false -> excludes_a_lowest A S ZL s (wigm_defeat A cfg s).
Proof. exact wigm_defeat_excludes_a_lowest. Qed.
Print Assumptions C07_single_exclusion_wigm.

Theorem C07_single_exclusion_cfer : forall A S (ZL : zlike A S) cfg, exact A = false -> forall s : est A,
  crashed (cfer_defeat_low A cfg s) = false -> excludes_a_lowest A S ZL s (cfer_defeat_low A cfg s).
Proof. exact cfer_defeat_low_excludes_a_lowest. Qed.
Print Assumptions C07_single_exclusion_cfer.

Theorem C07_single_exclusion_mpls : forall A S (ZL : zlike A S) cfg, exact A = false -> forall s : est A,
  crashed (mpls_defeat_low A cfg s) = false -> excludes_a_lowest A S ZL s (mpls_defeat_low A cfg s).
Proof. exact mpls_defeat_low_excludes_a_lowest. Qed.
Print Assumptions C07_single_exclusion_mpls.

(* ---- "where a rule transfers one surplus at a time, the one transferred first is the largest" (wigm, wigm-prf, scotland):
   in every state with distinct candidate ids the surplus-transfer step, when it does not crash, transfers the surplus of a
   transfer-pending winner whose tally is >= every pending winner's tally, and changes nothing else about anybody's status
   ([transfers_a_largest]); the second case -- the tie-break names nobody -- is a crash for the tie-break by lot. *)
Theorem C07_largest_surplus_is_transferred_first : forall A S (ZL : zlike A S) cfg, exact A = false ->
  forall bt rew (s : est A), bt_ok A bt -> NoDup (map (@cid A) (cands s)) -> crashed s = false ->
  crashed (transfer_high_surplus A cfg bt rew s) = false ->
  transfers_a_largest A S ZL s (transfer_high_surplus A cfg bt rew s) \/
  (exists hv, max_vote A (pendings A s) = Some hv /\ snd (bt (filter (fun c => eqv A (cvote c) hv) (pendings A s)) s) = None).
Proof. exact transfer_high_transfers_a_largest. Qed.
Print Assumptions C07_largest_surplus_is_transferred_first.

(* ---- QPQ: "lowest quotient".  One step of the rule, in every state, when it does not crash: the one candidate whose status
   changes is a hopeful with the largest quotient among the hopefuls (it is elected) or the smallest (it is excluded). *)
Theorem C07_qpq_elects_highest_excludes_lowest_quotient : forall A S (ZL : zlike A S) cfg, exact A = false -> forall s : est A,
  crashed (qpq_step A cfg s) = false ->
  exists c, In c (hopefuls A s) /\
    ((forall c', In c' (hopefuls A s) -> raw ZL (quo_of A c') <= raw ZL (quo_of A c)) /\
       stl A (cands (qpq_step A cfg s)) = stl A (upd_cand A (cid c) (fun x => with_st x Elected (Some false)) (cands s))
     \/
     (forall c', In c' (hopefuls A s) -> raw ZL (quo_of A c) <= raw ZL (quo_of A c')) /\
       stl A (cands (qpq_step A cfg s)) = stl A (upd_cand A (cid c) (fun x => with_st x Defeated (cpend x)) (cands s))).
Proof. exact qpq_step_extreme_quotient. Qed.
Print Assumptions C07_qpq_elects_highest_excludes_lowest_quotient.

(* ---- "candidates excluded as a batch are always sure losers ... and enough candidates remain to fill the seats":
   batchDefeat of wigm-prf-batch, meek and warren ([batch_defeat surp s], surp = the untransferred surplus), in every state.
   A non-empty batch leaves at least as many hopefuls as there are seats to fill, and its combined tallies plus the surplus
   are below the tally of a hopeful candidate (the first of the next group in ascending order of tally: the "next
   candidate").  [rsum] adds raw tallies. *)
Theorem C07_batch_of_sure_losers_partial : forall A S (ZL : zlike A S) cfg, exact A = false -> forall surp (s : est A),
  batch_defeat A cfg surp s <> [] ->
  nlen (batch_defeat A cfg surp s) <= nlen (hopefuls A s) - seats_left A cfg s /\
  exists c, In c (hopefuls A s) /\ rsum A S ZL (batch_defeat A cfg surp s) + raw ZL surp < raw ZL (cvote c).
Proof. exact batch_defeat_sure_losers. Qed.
Print Assumptions C07_batch_of_sure_losers_partial.

(* ... and the batch of the parametric wigm rule under defeat_batch=zero (the candidates tied at a lowest tally that compares equal
   to zero, excluded together when no surplus is pending), in every state with distinct candidate ids: when the exclusion step
   takes the batch branch, nobody is elected by it, the excluded grow by exactly the size of the batch, and the candidates still
   in the running -- elected plus hopeful, [actn] -- are at least as many as the seats (Proofs/WinnersZero.v; this is the guard
   repaired by fix F7, and the step seeded changes C01_12, C07_6, C07_12, C09_1 aim at) *)
From Droop Require Import Proofs.Winners Proofs.TerminateQpq Proofs.WinnersZero.
Theorem C07_zero_batch_leaves_enough_candidates : forall A cfg, exact A = false -> forall (s : est A) lv lows,
  NoDup (map (@cid A) (cands s)) -> low_candidates A s = Some (lv, lows) ->
  eqv A lv (V0 A) && cf_batch_zero cfg && (seats_left A cfg s <=? nlen (hopefuls A s) - nlen lows) = true ->
  let r := wigm_defeat A cfg s in
  eln A r = eln A s /\ dfn A r = (dfn A s + List.length lows)%nat /\ cf_nseats cfg <= Z.of_nat (actn A r) /\
  map (@cid A) (cands r) = map (@cid A) (cands s).
Proof. exact zero_batch_leaves_enough. Qed.
Print Assumptions C07_zero_batch_leaves_enough_candidates.

(* ... and the batch of cfer-batch (cfer.py's batchDefeat: the longest qualifying prefix of the hopefuls in ascending order of tally), in
   every state with distinct candidate ids: its members are distinct, and a non-empty batch leaves at least as many hopefuls as there
   are seats to fill (Proofs/WinnersCferBatch.v).  That its members are hopefuls: cfer_batch_hopeful (Proofs/ForwardGreg2.v). *)
From Droop Require Import Proofs.ForwardGreg2 Proofs.WinnersCferBatch.
Theorem C07_cfer_batch_leaves_enough_candidates : forall A cfg, exact A = false -> forall (s : est A), NoDup (map (@cid A) (cands s)) ->
  NoDup (map (@cid A) (cfer_batch A cfg s)) /\ Forall (fun c => In c (hopefuls A s)) (cfer_batch A cfg s) /\
  (cfer_batch A cfg s <> [] -> nlen (cfer_batch A cfg s) <= nlen (hopefuls A s) - seats_left A cfg s).
Proof. exact (fun A cfg Hex s H => conj (proj1 (cfer_batch_prefix A cfg Hex s H)) (conj (cfer_batch_hopeful A cfg s) (proj2 (cfer_batch_prefix A cfg Hex s H)))). Qed.
Print Assumptions C07_cfer_batch_leaves_enough_candidates.

(* ---- Meek family: "within the current total surplus".  The exclusion step of meek, warren and meek-prf, in every state,
   when it does not crash: the excluded candidate is a hopeful whose tally is at most the lowest hopeful tally plus the total
   surplus (plus nothing when rounding has left the surplus negative), and nobody else's status changes.
   [vmin_minimal]: the arithmetic's min() returns a minimal element -- proved below for the fixed-point arithmetic of the PRF
   reference rule (and of meek/warren with arithmetic=fixed), whose min() is Python's fold under its own <. *)
From Droop Require Import Model.RulesMeek.
Theorem C07_meek_exclusion_is_within_the_surplus : forall A S (ZL : zlike A S) cfg, exact A = false ->
  forall fmt rd (s : est A), vmin_minimal A S ZL ->
  crashed (meek_defeat_low A cfg fmt rd s) = false ->
  exists c, In c (hopefuls A s) /\
    (forall c', In c' (hopefuls A s) -> raw ZL (cvote c) <= raw ZL (cvote c') + Z.max 0 (raw ZL (surplus s))) /\
    stl A (cands (meek_defeat_low A cfg fmt rd s)) = stl A (upd_cand A (cid c) (fun x => with_st x Defeated (cpend x)) (cands s)).
Proof. exact meek_defeat_low_within_surplus. Qed.
Print Assumptions C07_meek_exclusion_is_within_the_surplus.

Theorem C07_fixed_point_min_is_minimal : forall p d S (ZL : zlike (Fixed p d) S), exact (Fixed p d) = false -> vmin_minimal (Fixed p d) S ZL.
Proof. exact (fun p d S ZL Hex => vmin_fold_minimal (Fixed p d) S ZL Hex (vmin_fold_fixed p d)). Qed.
Print Assumptions C07_fixed_point_min_is_minimal.

(* ... and for Guarded arithmetic with guard 0, which IS the fixed-point instance (C13_guard0_instance; functional extensionality) *)
Theorem C07_guard0_min_is_minimal : forall p d s S (ZL : zlike (Guarded p 0 d s) S), 1 <= p -> 0 <= d ->
  exact (Guarded p 0 d s) = false -> vmin_minimal (Guarded p 0 d s) S ZL.
Proof. exact vmin_minimal_guard0. Qed.
Print Assumptions C07_guard0_min_is_minimal.
