(* C05 -- Droop proportionality for solid coalitions.
   Proved: the ONE-SEAT clause ("with one seat, a candidate ranked first by more than half of the ballots always wins")
   for wigm, wigm-prf(-batch), cfer(-batch), Minneapolis (declared candidates) and the Scottish rule under Fixed / integer / Guarded(guard 0), as whole-run theorems
   (C05_one_seat_majority_wins_partial, ..._scotland_partial, ..._wigm_partial, ..._cfer_partial).
   The general coalition statement is not proved (DESIGN C05: the coalition invariant is the largest single proof of the
   plan); it is decided by the exhaustive coalition oracle on every generated election (all subsets S, all k)
   and the final-scope correspondence.  Also machine-checked: the property is FALSE of the faithful model for
   the Warren rule (open finding K4): the witness below evaluates, inside Coq, to an outcome in which the
   coalition {3,4,5}, ranked first by 4 of 6 ballots (> 3 quotas of 1.2001 plus the allowance), wins 2 seats. *)
From Coq Require Import ZArith List Bool String PArith.
From Droop Require Import Model.KernelBase Model.Arith Model.Prelude Model.State Model.Prims Model.Election
  Proofs.Zlike Proofs.ConserveCount Proofs.Majority.
Import ListNotations.
Open Scope Z_scope.

Definition k4_profile : profile :=
  mkProfile 4 6
    [mkPcand 1 1 7 "c1" "1" false false; mkPcand 2 2 6 "c2" "2" true false; mkPcand 3 3 4 "c3" "3" false false;
     mkPcand 4 4 5 "c4" "4" false false; mkPcand 5 5 2 "c5" "5" false false; mkPcand 6 6 3 "c6" "6" false false;
     mkPcand 7 7 1 "c7" "7" true false]
    [(1, [4; 3; 5; 6]); (1, [4; 3; 6; 1; 5]); (1, [6; 3; 5]); (3, [3; 4; 5; 6; 1])] [].
Definition k4_cfg : config := mkConfig "warren" MMeek 4 6 false false true true 2.

(* ballots whose first |S| preferences are exactly S *)
Definition solid_for (S : list Z) (b : Z * list Z) : bool :=
  let top := firstn (List.length S) (snd b) in
  (Nat.eqb (List.length top) (List.length S)) && forallb (fun c => existsb (Z.eqb c) S) top.
Definition coalition_weight (S : list Z) (pr : profile) : Z :=
  fold_right (fun b acc => if solid_for S b then fst b + acc else acc) 0 (pr_ballots pr).

Example C05_warren_refuted :
  match run_count (Fixed 4 4) k4_cfg (2 ^ 20)%positive RMeek k4_profile with
  | Done s true =>
    let S := [3; 4; 5] in
    coalition_weight S k4_profile = 4 /\
    (* more than 3 quotas (initial quota 1.2001) plus the allowance of ballots x candidates x 2 units *)
    4 * 10 ^ 4 > 3 * 12001 + 6 * 5 * 2 /\
    map (@cid _) (electeds _ s) = [1; 3; 4; 6] /\
    List.length (filter (fun c => existsb (Z.eqb (cid c)) S) (electeds _ s)) = 2%nat
  | _ => False
  end.
Proof. vm_compute. repeat split; reflexivity. Qed.

(* ---- the one-seat clause, whole runs of wigm-prf (without sure-loser batches) ----
   [first_prefs pr m] = the number of ballot papers whose first preference is candidate m; [ballot_total pr] = all papers.
   If m is not withdrawn and more than half of the papers rank m first, every count with one seat that ends without a
   crash ends with m elected.  (The first-preference tally is the value of those papers -- the Gregory invariant --
   which reaches floor(papers/2)+1 units; the first election step elects every hopeful holding the quota; statuses only
   move forward; if the main loop never runs, m is the only hopeful and the closing step elects it.) *)
Theorem C05_one_seat_majority_wins_partial : forall A S (ZL : zlike A S) cfg,
  cf_method cfg = MWigm -> exact A = false -> raw ZL (epsilon A) = 1 -> cf_nseats cfg = 1 ->
  forall pr m fuel s k, cf_batch cfg = false -> wf_profile pr -> cf_nballots cfg = ballot_total pr ->
  (exists pc, In pc (pr_cands pr) /\ pc_cid pc = m /\ pc_withdrawn pc = false) ->
  ballot_total pr < 2 * first_prefs pr m ->
  exec (@crashed A) fuel (count_cmd A cfg RWigmPrf) (init_state A cfg pr) = Some (s, k) -> k <> Abort ->
  forall c, In c (cands s) -> cid c = m -> cst c = Elected.
Proof. exact (fun A S ZL cfg _ => count_majority_prf A S ZL cfg). Qed.
Print Assumptions C05_one_seat_majority_wins_partial.

(* the same under the Scottish rule (statutory: the Local Electoral Administration (Scotland) count) *)
Theorem C05_one_seat_majority_wins_scotland_partial : forall A S (ZL : zlike A S) cfg,
  cf_method cfg = MWigm -> exact A = false -> raw ZL (epsilon A) = 1 -> cf_nseats cfg = 1 ->
  forall pr m fuel s k, wf_profile pr -> cf_nballots cfg = ballot_total pr ->
  (exists pc, In pc (pr_cands pr) /\ pc_cid pc = m /\ pc_withdrawn pc = false) ->
  ballot_total pr < 2 * first_prefs pr m ->
  exec (@crashed A) fuel (count_cmd A cfg RScotland) (init_state A cfg pr) = Some (s, k) -> k <> Abort ->
  forall c, In c (cands s) -> cid c = m -> cst c = Elected.
Proof. exact (fun A S ZL cfg _ Hex _ => count_majority_scotland A S ZL cfg Hex). Qed.
Print Assumptions C05_one_seat_majority_wins_scotland_partial.

(* ... and under the parametric wigm rule with any of its options (integer_quota, defeat_batch) *)
Theorem C05_one_seat_majority_wins_wigm_partial : forall A S (ZL : zlike A S) cfg,
  cf_method cfg = MWigm -> exact A = false -> raw ZL (epsilon A) = 1 -> cf_nseats cfg = 1 ->
  forall pr m fuel s k, wf_profile pr -> cf_nballots cfg = ballot_total pr ->
  (exists pc, In pc (pr_cands pr) /\ pc_cid pc = m /\ pc_withdrawn pc = false) ->
  ballot_total pr < 2 * first_prefs pr m ->
  exec (@crashed A) fuel (count_cmd A cfg RWigm) (init_state A cfg pr) = Some (s, k) -> k <> Abort ->
  forall c, In c (cands s) -> cid c = m -> cst c = Elected.
Proof. exact (fun A S ZL cfg _ => count_majority_wigm A S ZL cfg). Qed.
Print Assumptions C05_one_seat_majority_wins_wigm_partial.

(* the same under the CfER rule, with or without sure-loser batches (cfer, cfer-batch): the first election step elects the
   candidate -- or the round-1 "everybody fits" exit does, when it is the only candidate -- and the rest of the loop body only
   moves statuses forward (Proofs/MajorityCfer.v) *)
From Droop Require Import Proofs.MajorityCfer.
Theorem C05_one_seat_majority_wins_cfer_partial : forall A S (ZL : zlike A S) cfg,
  exact A = false -> raw ZL (epsilon A) = 1 -> cf_nseats cfg = 1 ->
  forall pr m fuel s k, wf_profile pr -> cf_nballots cfg = ballot_total pr ->
  (exists pc, In pc (pr_cands pr) /\ pc_cid pc = m /\ pc_withdrawn pc = false) ->
  ballot_total pr < 2 * first_prefs pr m ->
  exec (@crashed A) fuel (count_cmd A cfg RCfer) (init_state A cfg pr) = Some (s, k) -> k <> Abort ->
  forall c, In c (cands s) -> cid c = m -> cst c = Elected.
Proof. exact count_majority_cfer. Qed.
Print Assumptions C05_one_seat_majority_wins_cfer_partial.

(* ... and wigm-prf with OR without sure-loser batches (wigm-prf, wigm-prf-batch): no hypothesis on cf_batch *)
Theorem C05_one_seat_majority_wins_prf_batch_partial : forall A S (ZL : zlike A S) cfg,
  exact A = false -> raw ZL (epsilon A) = 1 -> cf_nseats cfg = 1 ->
  forall pr m fuel s k, wf_profile pr -> cf_nballots cfg = ballot_total pr ->
  (exists pc, In pc (pr_cands pr) /\ pc_cid pc = m /\ pc_withdrawn pc = false) ->
  ballot_total pr < 2 * first_prefs pr m ->
  exec (@crashed A) fuel (count_cmd A cfg RWigmPrf) (init_state A cfg pr) = Some (s, k) -> k <> Abort ->
  forall c, In c (cands s) -> cid c = m -> cst c = Elected.
Proof. exact count_majority_prf_any. Qed.
Print Assumptions C05_one_seat_majority_wins_prf_batch_partial.

(* Minneapolis, one seat: a candidate who is not an undeclared write-in (the ordinance excludes write-ins in round 2 whatever
   their support) and is ranked first by more than half of the ballots is elected -- at the very first count, where the
   candidates at the threshold fill the seat *)
Theorem C05_one_seat_majority_wins_mpls_partial : forall A S (ZL : zlike A S) cfg,
  exact A = false -> cf_nseats cfg = 1 ->
  forall pr m fuel s k, wf_profile pr -> cf_nballots cfg = ballot_total pr ->
  (exists pc, In pc (pr_cands pr) /\ pc_cid pc = m /\ pc_withdrawn pc = false /\ pc_undeclared pc = false) ->
  NoDup (map pc_cid (pr_cands pr)) ->
  ballot_total pr < 2 * first_prefs pr m ->
  exec (@crashed A) fuel (count_cmd A cfg RMpls) (init_state A cfg pr) = Some (s, k) -> k <> Abort ->
  forall c, In c (cands s) -> cid c = m -> cst c = Elected.
Proof. exact count_majority_mpls. Qed.
Print Assumptions C05_one_seat_majority_wins_mpls_partial.

(* ... for every ballot file the reader accepts (no equal-rank ballots; [p_eligible] = the candidates that are not withdrawn) *)
From Droop Require Import Model.Profile Model.EndToEnd Proofs.EndToEndLink.
Theorem C05_one_seat_majority_wins_scotland_for_every_accepted_file : forall A S (ZL : zlike A S) cfg,
  exact A = false -> cf_nseats cfg = 1 ->
  forall text p m fuel s k, parse_file text = Ok p -> p_linesEq p = [] -> cf_nballots cfg = p_nBallots p ->
  In m (p_eligible p) -> p_nBallots p < 2 * first_prefs (to_count_profile p) m ->
  exec (@crashed A) fuel (count_cmd A cfg RScotland) (init_state A cfg (to_count_profile p)) = Some (s, k) -> k <> Abort ->
  forall c, In c (State.cands s) -> cid c = m -> cst c = Elected.
Proof. exact accepted_majority_scotland. Qed.
Print Assumptions C05_one_seat_majority_wins_scotland_for_every_accepted_file.

Theorem C05_one_seat_majority_wins_cfer_for_every_accepted_file : forall A S (ZL : zlike A S) cfg,
  exact A = false -> raw ZL (epsilon A) = 1 -> cf_nseats cfg = 1 ->
  forall text p m fuel s k, parse_file text = Ok p -> p_linesEq p = [] -> cf_nballots cfg = p_nBallots p ->
  In m (p_eligible p) -> p_nBallots p < 2 * first_prefs (to_count_profile p) m ->
  exec (@crashed A) fuel (count_cmd A cfg RCfer) (init_state A cfg (to_count_profile p)) = Some (s, k) -> k <> Abort ->
  forall c, In c (State.cands s) -> cid c = m -> cst c = Elected.
Proof. exact accepted_majority_cfer. Qed.
Print Assumptions C05_one_seat_majority_wins_cfer_for_every_accepted_file.

(* the hypotheses of the cfer / cfer-batch / wigm-prf-batch / mpls theorems are satisfiable: a well-formed three-candidate profile
   with a first-preference majority, counted by the model under Fixed(4) with each of the four rules, ends normally with the
   majority candidate elected *)
From Coq Require Import Lia.
From Droop Require Import Proofs.Gregory Proofs.Conserve.
Open Scope string_scope.
Definition c05_profile : Election.profile :=
  mkProfile 1 7 [mkPcand 1 1 1 "A" "1" false false; mkPcand 2 2 2 "B" "2" false false; mkPcand 3 3 3 "C" "3" false false]
            [(4, [1; 2]); (2, [2; 3]); (1, [3; 2])] [].
Example C05_new_rules_nonvacuous :
  wf_profile c05_profile /\ NoDup (map pc_cid (pr_cands c05_profile)) /\ ballot_total c05_profile = 7 /\ first_prefs c05_profile 1 = 4 /\
  Forall (fun rc => match exec (@crashed _) (2 ^ 10)%positive (count_cmd (Fixed 4 4) (snd rc) (fst rc)) (init_state (Fixed 4 4) (snd rc) c05_profile) with
                    | Some (s, Next) => map (fun c => (cid c, cst c)) (cands s) = [(1, Elected); (2, Defeated); (3, Defeated)] | _ => False end)
         [(RCfer, mkConfig "cfer" MWigm 1 7 false false false false 0); (RCfer, mkConfig "cfer-batch" MWigm 1 7 false false true false 0);
          (RWigmPrf, mkConfig "wigm-prf-batch" MWigm 1 7 false false true false 0); (RMpls, mkConfig "mpls" MWigm 1 7 false false false false 0)].
Proof.
  split; [|split; [repeat constructor; cbn; intuition (try discriminate; try lia)|split; [reflexivity|split; [reflexivity|]]]].
  - split; [repeat constructor; cbn; intuition (try discriminate; try lia)|].
    intros m r H. cbn in H. destruct H as [H|[H|[H|[]]]]; inversion H; subst; (split; [lia|]);
    intros c Hc; cbn in Hc;
    repeat (destruct Hc as [<-|Hc];
            [first [exists (mkPcand 1 1 1 "A" "1" false false); split; [cbn; tauto|split; reflexivity]
                   |exists (mkPcand 2 2 2 "B" "2" false false); split; [cbn; tauto|split; reflexivity]
                   |exists (mkPcand 3 3 3 "C" "3" false false); split; [cbn; tauto|split; reflexivity]]|]); contradiction.
  - apply Forall_cons; [vm_compute; reflexivity|]. apply Forall_cons; [vm_compute; reflexivity|].
    apply Forall_cons; [vm_compute; reflexivity|]. apply Forall_cons; [vm_compute; reflexivity|]. apply Forall_nil.
Qed.
