(* C14 -- Printed numbers are the stored values, correctly rounded.
   Proved on the __str__ kernels regenerated from /repo, at the level of the integers they hand
   to the "%d.%0Nd" / "%d.%0Pd_%0Gd" format (the format step itself is Model.Str.render_fmt, tied
   to Python's % operator by the correspondence check on printed strings).
     half_up x d       = floor(x * 10^d + 1/2): x rounded half-up to d digits, in 10^-d units
     fmt_value d w2 f  = what the format arguments denote, in 10^-d units (FmtNeg = leading '-')
     fmt_wf d w2 f     = every field fits its zero-padded width; '-' only in front of a value < 0 *)
From Coq Require Import ZArith QArith Qround List Bool String.
From Droop Require Import Model.KernelBase Model.Arith Gen.FixedKernels Gen.GuardedKernels
  Proofs.ArithLemmas Proofs.C14Proofs Proofs.C14Nearest.
Open Scope Z_scope.

Theorem C14_fixed_str : forall p d0 v, 0 <= p ->
  let st := mk_fixed_cls p d0 in let d := f_display st in
  exists f, FixedKernels.dunder_str st v = Ok f /\ fmt_wf d 0 f /\
            fmt_value d 0 f = half_up (valQ (10 ^ p) v) d /\ 0 <= d <= p.
Proof. exact c14_fixed. Qed.
Print Assumptions C14_fixed_str.

Theorem C14_guarded_str : forall p g d0 s v, 0 <= p -> 0 <= g -> 0 <= d0 ->
  let st := mk_guarded_cls p g d0 s in let d := g_display st in
  let w2 := if d <=? p then 0 else d - p in
  exists f, GuardedKernels.dunder_str st v = Ok f /\ fmt_wf d w2 f /\
            fmt_value d w2 f = half_up (valQ (10 ^ (p + g)) v) d /\ 0 <= d <= p + g.
Proof. exact c14_guarded. Qed.
Print Assumptions C14_guarded_str.

Theorem C14_rational_str : forall dp (q : Q), 0 <= dp ->
  let f := rational_fmt dp q in fmt_wf dp 0 f /\ fmt_value dp 0 f = half_up q dp.
Proof. exact c14_rational. Qed.
Print Assumptions C14_rational_str.

(* half_up, which the three theorems above print, is the property's "rounded half-up" and not merely a floor formula:
   in display units the printed integer is within half a unit of the exact value, a tie goes upward, and no other
   integer qualifies *)
Theorem C14_half_up_is_nearest : forall (x : Q) (d : Z),
  let y := (x * inject_Z (10 ^ d))%Q in
  ((inject_Z (half_up x d) - (1 # 2) <= y)%Q /\ (y < inject_Z (half_up x d) + (1 # 2))%Q) /\
  (forall n, (inject_Z n - (1 # 2) <= y)%Q -> (y < inject_Z n + (1 # 2))%Q -> n = half_up x d).
Proof. exact c14_half_up_is_nearest. Qed.
Print Assumptions C14_half_up_is_nearest.

(* non-vacuity, including the values the unfixed code misprinted (-0.5 printed as -1.500) *)
Example C14_concrete :
  FixedKernels.dunder_str (mk_fixed_cls 4 3) (-5000) = Ok (FmtNeg (Fmt2 0 500)) /\
  FixedKernels.dunder_str (mk_fixed_cls 4 3) (-4) = Ok (Fmt2 0 0) /\
  str (Fixed 4 3) (-5000) = "-0.500"%string /\
  str (Guarded 2 2 4 0) (-10004) = "-1.00_04"%string /\
  str (Rational 3) (-1 # 2) = "-0.500"%string /\
  half_up (valQ (10 ^ 4) (-5000)) 3 = -500.
Proof. vm_compute. repeat split. Qed.

(* String level (not proved in general: the % operator is modelled by render_fmt and tied by
   correspondence).  It is FALSE for Guarded with precision 0 and display > 0, where "%00d" still
   prints one digit: 10.03 is printed "10.0_03", which denotes 10003/10^3.  Open finding K6. *)
Example C14_guarded_precision0_string_refuted :
  str (Guarded 0 2 2 0) 1003 = "10.0_03"%string /\
  Model.Str.denote (str (Guarded 0 2 2 0) 1003) = Some (10003, 3) /\
  half_up (valQ (10 ^ (0 + 2)) 1003) 2 = 1003.
Proof. vm_compute. repeat split. Qed.
