(* Reference extraction: Z stays the extracted inductive type (no ExtrOcamlZBigInt). *)
From Coq Require Import Extraction ExtrOcamlBasic ExtrOcamlNativeString.
From Droop Require Import Model.Driver.
Extraction Blacklist String List Nat Int.
Extraction "../extract/ref/model.ml" Driver.run.
