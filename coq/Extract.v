(* Extraction of the executable model (fast: Z -> zarith). *)
From Coq Require Import Extraction ExtrOcamlBasic ExtrOcamlNativeString ExtrOcamlZBigInt.
From Droop Require Import Model.Driver.
Extraction Blacklist String List Nat Int.
Extraction "../extract/fast/model.ml" Driver.run.
