#!/bin/bash
# Regenerate the translated kernels from /repo, rebuild the Coq development and the extracted model.
# usage: build.sh [--clean]
set -u
cd "$(dirname "$0")"
ROOT=$(pwd)
export DROOP_REPO=${DROOP_REPO:-/repo}
if [ "${1:-}" = "--clean" ]; then
  (cd coq && [ -f Makefile ] && make clean >/dev/null 2>&1; rm -f Makefile Makefile.conf .Makefile.d)
  rm -rf extract/fast extract/ref extract/_build
fi
mkdir -p coq/Gen extract/fast extract/ref work
python3 harness/translate_values.py coq/Gen > work/translate.log 2>&1
TR=$?
cat work/translate.log
if [ $TR -ne 0 ]; then echo "BUILD-FAIL translator"; exit 3; fi
# Unicode classification tables from the interpreter that runs droop (fail closed like the translator)
${DROOP_PYTHON:-/venv/bin/python} harness/gen_unicode_tables.py coq/Gen > work/unicode_tables.log 2>&1
UT=$?
cat work/unicode_tables.log
if [ $UT -ne 0 ]; then echo "BUILD-FAIL translator (unicode tables)"; exit 3; fi
cd coq
(echo "-Q . Droop"; echo "-arg -w -arg -notation-overridden"; find Model Gen Proofs Props -name '*.v' | sort; echo Extract.v; echo ExtractRef.v) > _CoqProject.new
cmp -s _CoqProject.new _CoqProject 2>/dev/null || { mv _CoqProject.new _CoqProject; coq_makefile -f _CoqProject -o Makefile >/dev/null; }
rm -f _CoqProject.new
[ -f Makefile ] || coq_makefile -f _CoqProject -o Makefile >/dev/null
# model + extraction first (so the model runs even if a proof breaks), then everything with -k
timeout 1800 make -j${JOBS:-16} Extract.vo ExtractRef.vo > ../work/make_model.log 2>&1
MM=$?
timeout 3000 make -k -j${JOBS:-16} > ../work/make_all.log 2>&1
MA=$?
cd "$ROOT"
if [ $MM -ne 0 ]; then tail -30 work/make_model.log; echo "BUILD-FAIL model"; exit 4; fi
build_ml () {  # dir zconv pkgs
  local d=$1
  cp extract/main.ml extract/$d/main.ml
  cp extract/zconv_$d.ml extract/$d/zconv.ml
  (cd extract/$d && ocamlfind ocamlopt -O2 -w -a $2 -linkpkg model.mli model.ml zconv.ml main.ml -o ../model_$d 2>&1 || \
   ocamlfind ocamlopt -w -a $2 -linkpkg model.mli model.ml zconv.ml main.ml -o ../model_$d) > work/ocaml_$d.log 2>&1
}
if [ ! -x extract/model_fast ] || [ extract/fast/model.ml -nt extract/model_fast ] || [ extract/main.ml -nt extract/model_fast ]; then
  build_ml fast "-package zarith" || { cat work/ocaml_fast.log; echo "BUILD-FAIL ocaml fast"; exit 5; }
fi
if [ ! -x extract/model_ref ] || [ extract/ref/model.ml -nt extract/model_ref ] || [ extract/main.ml -nt extract/model_ref ]; then
  build_ml ref "" || { cat work/ocaml_ref.log; echo "BUILD-FAIL ocaml ref"; exit 5; }
fi
if [ $MA -ne 0 ]; then grep -B2 -A12 "^Error\|Error:" work/make_all.log | head -60; echo "BUILD-PARTIAL proofs"; exit 6; fi
echo "BUILD-OK"
